#!/bin/bash
# tools/seedtest.sh <ID> <worktree> <check ids...> : confirm a seeded change (tests unchanged, demo fails with / passes without),
# store it under /verif/seeded/<ID>/ and run the given checks against it on /repo.
ID=$1; WT=$2; shift 2
S=$WT/_seed
[ -f $S/patch.diff ] || { echo "no patch in $S"; exit 1; }
cd $WT
git diff --quiet -- src && { echo "worktree has no source change"; }
/venv/bin/python -m pytest -q -p no:cacheprovider --timeout=900 --continue-on-collection-errors --ignore=_seed -rA 2>&1 | grep "^PASSED" | sort > /tmp/wt/$ID.passed_after.txt
if diff -q /tmp/wt/baseline_passed.txt /tmp/wt/$ID.passed_after.txt >/dev/null; then echo "[$ID] tests: same $(wc -l < /tmp/wt/$ID.passed_after.txt) passing"; TESTS=same; else echo "[$ID] tests: PASS SET DIFFERS"; diff /tmp/wt/baseline_passed.txt /tmp/wt/$ID.passed_after.txt | head -5; TESTS=differs; fi
/venv/bin/python _seed/demo.py > /tmp/wt/$ID.demo_with.txt 2>&1; W=$?
git stash -q -- src
/venv/bin/python _seed/demo.py > /tmp/wt/$ID.demo_without.txt 2>&1; WO=$?
git stash pop -q
echo "[$ID] demo with change: exit $W ; without: exit $WO"
mkdir -p /verif/seeded/$ID
git diff -- src > /verif/seeded/$ID/patch.diff
sed "s#/tmp/wt/$ID/src#' + __import__('os').environ.get('NDT_SRC', '/repo/src') + '#g" $S/demo.py > /verif/seeded/$ID/demo.py
cp $S/meta.json /verif/seeded/$ID/meta.agent.json
RES=""
for c in "$@"; do
  git -C /repo apply /verif/seeded/$ID/patch.diff || { echo "patch does not apply to /repo"; continue; }
  out=$(cd /verif && timeout 3000 ./check $c --tier quick 2>&1); rc=$?
  git -C /repo checkout -- .
  echo "[$ID] check $c exit=$rc $(echo "$out" | grep -E 'VIOLATION|HARNESS-ERROR|NOTE' | head -2 | cut -c1-250)"
  RES="$RES $c:$rc"
done
echo "$ID tests=$TESTS demo_with=$W demo_without=$WO checks:$RES" >> /verif/seeded/results.log
