#!/bin/bash
# tools/reseed.sh [IDs...] : regression over the stored seeded changes: each patch is applied in a scratch worktree (removed
# afterwards) and the check(s) named in its meta.json "caught_by" are run against it; expected exit code 1 for every one.
cd /verif
IDS="$@"; [ -z "$IDS" ] && IDS=$(ls seeded | grep -v "benign\|results.log")
for id in $IDS; do
  [ -f seeded/$id/patch.diff ] || continue
  if grep -q '"status": "obsolete"' seeded/$id/meta.json 2>/dev/null; then echo "$id skipped (obsolete, see meta.json)"; continue; fi
  wt=/tmp/wt_re/$id; rm -rf $wt; mkdir -p /tmp/wt_re
  git -C /repo worktree add --detach -q $wt || continue
  git -C $wt apply /verif/seeded/$id/patch.diff || { echo "$id: patch does not apply"; git -C /repo worktree remove --force $wt; continue; }
  checks=$(python3 -c "import json,re;print(' '.join(sorted({re.match(r'C\d+',c).group(0) for c in json.load(open('seeded/$id/meta.json'))['caught_by']})))")
  for c in $checks; do
    mkdir -p /tmp/vo_re/$id
    out=$(VERIF_REPO_SRC=$wt/src VERIF_OUT=/tmp/vo_re/$id timeout 3000 ./check $c --tier quick 2>&1); rc=$?
    echo "$id $c exit=$rc $(echo "$out" | grep -E 'HARNESS-ERROR' | head -1 | cut -c1-200)"
  done
  git -C /repo worktree remove --force $wt; rm -rf /tmp/vo_re/$id
done
git -C /repo worktree prune
