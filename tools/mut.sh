#!/bin/bash
# tools/mut.sh <file-under-src/numdifftools> <sed-expr> <check ids...>   -- apply a mutation, run quick checks, revert
f=/repo/src/numdifftools/$1; expr=$2; shift 2
sed -i "$expr" "$f"
if git -C /repo diff --quiet; then echo "MUTATION DID NOT APPLY"; exit 3; fi
git -C /repo diff | grep '^[-+]' | grep -v '^[-+][-+]' | head -6
for id in "$@"; do
  out=$(cd /verif && timeout 1800 ./check $id --tier ${TIER:-quick} 2>&1); rc=$?
  echo "[$id] exit=$rc $(echo "$out" | grep -E 'VIOLATION|HARNESS-ERROR|KNOWN' | head -3 | cut -c1-300)"
done
git -C /repo checkout -- .
