#!/bin/bash
# tools/benign.sh <patch> <check ids...> : apply a behaviour-preserving change to /repo, run the given checks (quick tier),
# revert. Every exit code other than 0 is a false alarm / fragility of the machinery.
P=$1; shift
git -C /repo apply "$P" || { echo "patch does not apply"; exit 3; }
for c in "$@"; do
  out=$(cd /verif && timeout 3000 ./check $c --tier quick 2>&1); rc=$?
  echo "[$(basename $(dirname $P))] check $c exit=$rc $(echo "$out" | grep -E 'VIOLATION|HARNESS-ERROR|NOTE|Error' | head -3 | cut -c1-300)"
done
git -C /repo checkout -- .
