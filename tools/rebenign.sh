#!/bin/bash
# tools/rebenign.sh : false-alarm regression: every stored behaviour-preserving change (seeded/benign/R*) is applied in a scratch
# worktree and the checks that depend on the touched file are run against it; expected exit code 0 for every one.
cd /verif
declare -A CH=( [R1]="C01 C02 C03 C04 C05 C06 C08 C09 C10 C11" [R2]="C07 C13 C14 C01 C02 C08 C18" [R3]="C18 C02 C08 C09 C10 C11" [R4]="C01 C02 C03 C04 C05 C08 C09 C11" [R5]="C10 C09 C01 C05 C18" [R6]="C15 C16 C11" [R7]="C12 C01 C04 C05 C11" )
for id in ${@:-R1 R2 R3 R4 R5 R6 R7}; do
  wt=/tmp/wt_re/$id; rm -rf $wt; mkdir -p /tmp/wt_re
  git -C /repo worktree add --detach -q $wt || continue
  git -C $wt apply /verif/seeded/benign/$id/patch.diff || { echo "$id: patch does not apply"; git -C /repo worktree remove --force $wt; continue; }
  for c in ${CH[$id]}; do
    mkdir -p /tmp/vo_re/$id
    out=$(VERIF_REPO_SRC=$wt/src VERIF_OUT=/tmp/vo_re/$id timeout 3000 ./check $c --tier quick 2>&1); rc=$?
    echo "$id $c exit=$rc $(echo "$out" | grep -E 'VIOLATION|HARNESS-ERROR' | head -1 | cut -c1-250)"
  done
  git -C /repo worktree remove --force $wt; rm -rf /tmp/vo_re/$id
done
git -C /repo worktree prune
