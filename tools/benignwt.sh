#!/bin/bash
# tools/benignwt.sh <ID> <check ids...> : run checks (quick tier) against the behaviour-preserving change in /tmp/wt/<ID>;
# every exit code other than 0 is a false alarm / fragility of the machinery
ID=$1; shift
WT=/tmp/wt/$ID
mkdir -p /tmp/vo/$ID /verif/seeded/benign/$ID
( cd $WT && git diff -- src > /verif/seeded/benign/$ID/patch.diff; cp _seed/meta.json /verif/seeded/benign/$ID/meta.agent.json 2>/dev/null )
for c in "$@"; do
  out=$(cd /verif && VERIF_REPO_SRC=$WT/src VERIF_OUT=/tmp/vo/$ID timeout 3000 ./check $c --tier quick 2>&1); rc=$?
  echo "[$ID] check $c exit=$rc $(echo "$out" | grep -E 'VIOLATION|HARNESS-ERROR|NOTE' | head -2 | cut -c1-300)"
done
