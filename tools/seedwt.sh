#!/bin/bash
# tools/seedwt.sh <ID> <check ids...> : like seedtest.sh but runs the checks against the scratch worktree /tmp/wt/<ID>
# (VERIF_REPO_SRC / VERIF_OUT development overrides), so /repo is not touched.
ID=$1; shift
WT=/tmp/wt/$ID; S=$WT/_seed
[ -f $S/patch.diff ] || { echo "no patch in $S"; exit 1; }
cd $WT
git diff -- src > /tmp/wt/$ID.cur.diff
/venv/bin/python -m pytest -q -p no:cacheprovider --timeout=900 --continue-on-collection-errors --ignore=_seed -rA 2>&1 | grep "^PASSED" | sort > /tmp/wt/$ID.passed_after.txt
if diff -q /tmp/wt/baseline_passed.txt /tmp/wt/$ID.passed_after.txt >/dev/null; then echo "[$ID] tests: same $(wc -l < /tmp/wt/$ID.passed_after.txt) passing"; TESTS=same; else echo "[$ID] tests: PASS SET DIFFERS"; TESTS=differs; fi
/venv/bin/python _seed/demo.py > /tmp/wt/$ID.demo_with.txt 2>&1; W=$?
git apply -R /tmp/wt/$ID.cur.diff
/venv/bin/python _seed/demo.py > /tmp/wt/$ID.demo_without.txt 2>&1; WO=$?
git apply /tmp/wt/$ID.cur.diff
echo "[$ID] demo with change: exit $W ; without: exit $WO"
mkdir -p /verif/seeded/$ID
cp /tmp/wt/$ID.cur.diff /verif/seeded/$ID/patch.diff
sed "s#/tmp/wt/$ID/src#' + __import__('os').environ.get('NDT_SRC', '/repo/src') + '#g" $S/demo.py > /verif/seeded/$ID/demo.py
cp $S/meta.json /verif/seeded/$ID/meta.agent.json
RES=""
mkdir -p /tmp/vo/$ID
for c in "$@"; do
  out=$(cd /verif && VERIF_REPO_SRC=$WT/src VERIF_OUT=/tmp/vo/$ID timeout 3000 ./check $c --tier quick 2>&1); rc=$?
  echo "[$ID] check $c exit=$rc $(echo "$out" | grep -E 'VIOLATION|HARNESS-ERROR|NOTE' | head -2 | cut -c1-250)"
  RES="$RES $c:$rc"
done
echo "$ID tests=$TESTS demo_with=$W demo_without=$WO checks:$RES" >> /verif/seeded/results.log
