"""C16 -- fd_derivative is exact on polynomials at every point of any grid.

The real ``fd_derivative(fx, x, n, m)`` is executed with fx[i] = p(x_i), p a SYMBOLIC polynomial of
degree 2*(n//2+m):
  (C) concrete strictly monotone rational grids (uniform and seeded non-uniform, increasing and
      decreasing), carried as exact constants so that all weights are exact; every output index --
      the mm left boundary points, the mm right ones and the interior window -- is proven equal to
      p^(n)(x_i) for all coefficients (linear identity); output length == input length
  (S) a SYMBOLIC grid for (n, m) = (1, 1), N = 4..6 (rational functions as num/den pairs): the same
      identity for all pairwise distinct grid points
  twin: degree 2*mm+2 is NOT reproduced at an interior point.  Guards: len mismatch / n >= len raise.
"""
from __future__ import annotations

from fractions import Fraction

import numpy as np
import z3

from .. import symnum as sn
from .. import tracing as tr
from . import common as cm

ID = 'C16'

META = {
    'title': 'fd_derivative exact on polynomials at every grid point',
    'level': 'other',
    'explanation': (
        'Solver-based bounded checking of the real fd_derivative: executed on samples of a symbolic polynomial of degree '
        '2*(n//2+m) on exact rational grids (all boundary stencils at both ends and the interior sliding window) and, for '
        '(n,m)=(1,1), on fully symbolic grids; z3 decides that every output entry equals the exact n-th derivative for all '
        'polynomial coefficients (and all distinct grid points in the symbolic case).'),
    'functions_encoded': ['numdifftools.fornberg.fd_derivative', 'numdifftools.fornberg.fd_weights',
                          'numdifftools.fornberg.fd_weights_all', 'numdifftools.fornberg._fd_weights_all'],
    'bounds': {'quick': 'n=1..4, m=1..3, N in {2mm+2, 2mm+3, 2mm+6}; 6 grid families (uniform / non-uniform / width 1e-7 / nearly uniform with 1e-7 jitter, increasing and decreasing); '
                        'symbolic grid N=4,5 for (n,m)=(1,1)',
               'thorough': 'n=1..6, m=1..4, N additionally 24; symbolic grid N=4..6'},
    'outside_claim': ['floating-point rounding scaled by grid conditioning', 'grids longer than 24 points'],
    'stubs': ['module global np -> symbolic numpy proxy (zeros_like buffer widened to object dtype)'],
    'assumptions': ['exact arithmetic', 'grid points pairwise distinct / strictly monotone'],
    'timeout_ms': {'quick': 120000, 'thorough': 300000},
}


def grid(family, N, seed):
    rng = np.random.default_rng(seed * 7919 + N)
    F = Fraction
    if family.startswith('uniform'):
        g = [F(i, 8) - 1 for i in range(N)]
    elif family.startswith('tiny'):
        # a non-uniform grid of total width ~1e-7 (absolute differences far below any fixed absolute tolerance)
        acc = F(3, 7)
        g = []
        for _ in range(N):
            g.append(acc)
            acc += F(int(rng.integers(1, 40)), 64 * 10 ** 9)
    elif family.startswith('jitter'):
        # unit spacing with a relative jitter of ~1e-7 (nearly uniform, but not uniform)
        g = [F(i, 8) + F(int(rng.integers(-50, 50)), 8 * 10 ** 8) for i in range(N)]
    else:
        acc = F(-1)
        g = []
        for _ in range(N):
            g.append(acc)
            acc += F(int(rng.integers(1, 40)), 64)
    if family.endswith('dec'):
        g = g[::-1]
    return g


def jobs(tier, seed):
    th = tier == 'thorough'
    out = []
    for n in range(1, 7 if th else 5):
        for m in range(1, 5 if th else 4):
            mm = n // 2 + m
            Ns = [2 * mm + 2, 2 * mm + 3, 2 * mm + 6] + ([24] if th and 2 * mm + 6 < 24 else [])
            for N in Ns:
                for fam in ('uniform-inc', 'uniform-dec', 'random-inc', 'random-dec', 'tiny-inc', 'jitter-dec'):
                    out.append(('grid-n%d-m%d-N%d-%s' % (n, m, N, fam), dict(kind='grid', n=n, m=m, N=N, family=fam, seed=seed)))
    for N in ((4, 5, 6) if th else (4, 5)):
        out.append(('symbolic-N%d' % N, dict(kind='symbolic', n=1, m=1, N=N, family='', seed=seed)))
    out.append(('guards', dict(kind='guards', n=1, m=1, N=6, family='uniform-inc', seed=seed)))
    out.append(('integer-typed-samples-witness', dict(kind='intwitness', n=1, m=1, N=8, family='', seed=seed)))
    return out


def run_job(job, kind, n, m, N, family, seed):
    fb = cm.nd_mods()['fb']
    if kind == 'grid':
        return on_grid(job, fb, n, m, N, family, seed)
    if kind == 'symbolic':
        return symbolic(job, fb, N)
    if kind == 'intwitness':
        bad = int_witness_failures(fb)
        if not job.confirm('integer-typed samples / grids give the same result as the same values as floats (concrete runs)', not bad):
            job.violation('int', dict(key='C16:integer-typed-samples', kind='intwitness', detail=bad[0]))
        return
    return guards(job, fb)


def int_witness_failures(fb):
    """CONCRETE witness runs (not solver evidence): the symbolic runs carry no numpy dtype, so an output buffer that inherits an
    integer dtype from the samples is invisible to them.  Polynomials with integer values at integer points:
    x(x+1)/2, x(x+1)(x+2)/6, x^2, ..."""
    bad = []
    for N in (8, 11):
        x = np.arange(N)
        polys = [('x(x+1)/2', x * (x + 1) // 2, lambda t: t + 0.5, lambda t: np.ones_like(t, dtype=float)),
                 ('x^2 - 3x', x * x - 3 * x, lambda t: 2.0 * t - 3, lambda t: 2.0 + 0 * t),
                 ('x(x+1)(x+2)/6', x * (x + 1) * (x + 2) // 6, lambda t: (3.0 * t * t + 6 * t + 2) / 6, lambda t: t + 1.0)]
        for name, fx, d1, d2 in polys:
            for label, fxa, xa in (('int array', fx, x), ('list of int', [int(v) for v in fx], [int(v) for v in x]),
                                   ('int samples on a float grid', fx, x.astype(float)), ('float samples on an int grid', fx.astype(float), x)):
                for n, exact in ((1, d1), (2, d2)):
                    try:
                        got = np.asarray(fb.fd_derivative(fxa, xa, n=n, m=2))
                    except Exception as e:  # noqa
                        bad.append('fd_derivative(%s samples of %s, n=%d) raises %s: %s' % (label, name, n, type(e).__name__, e))
                        continue
                    want = exact(x.astype(float))
                    if got.shape != want.shape or not np.allclose(got.astype(float), want, rtol=1e-9, atol=1e-9):
                        bad.append('fd_derivative with %s samples of p(x) = %s on x = 0..%d, n=%d, m=2 returns %s, exact %s-th derivative %s'
                                   % (label, name, N - 1, n, got.tolist()[:5], n, want.tolist()[:5]))
    return bad


def on_grid(job, fb, n, m, N, family, seed):
    g = grid(family, N, seed)
    mm = n // 2 + m
    deg = 2 * mm
    b = [sn.real_var('b%d' % d) for d in range(deg + 1)]
    xs = sn.SymArr([sn.const(v) for v in g])
    p = cm.poly_fun(b)
    fx = sn.SymArr([p(sn.const(v)) for v in g])

    def harness():
        with tr.traced():
            return fb.fd_derivative(fx, xs, n, m)
    path = sn.run_single(harness)
    job.paths += 1
    if path.exc is not None:
        job.violation('raises', dict(key='C16:raises:%s' % type(path.exc).__name__, kind='grid', exc=repr(path.exc)[:200]))
        return
    du = np.asarray(path.result)
    if not job.confirm('length', du.shape == (N,)):
        job.violation('length', dict(key='C16:output-length', kind='grid', got=list(du.shape)))
        return
    for i in range(N):
        want = cm.poly_deriv_at(b, n, sn.const(g[i]))
        diff = z3.simplify(sn.lift(du[i]) - sn.lift(want), som=True)
        region = 'left' if i < mm else ('right' if i >= N - mm else 'interior')
        job.prove('du[%d] (%s)' % (i, region), diff == 0, [],
                  dict(key='C16:%s-point-inexact' % region, kind='grid', index=i, region=region))
    # twin: two degrees higher must fail at an interior point
    b2 = b + [sn.real_var('b%d' % (deg + 1)), sn.real_var('b%d' % (deg + 2))]
    p2 = cm.poly_fun(b2)
    fx2 = sn.SymArr([p2(sn.const(v)) for v in g])

    def harness2():
        with tr.traced():
            return fb.fd_derivative(fx2, xs, n, m)
    du2 = np.asarray(sn.run_single(harness2).result)
    i = mm if N > 2 * mm else 0
    want2 = cm.poly_deriv_at(b2, n, sn.const(g[i]))
    job.twin('degree 2mm+2 not reproduced', [z3.simplify(sn.lift(du2[i]) - sn.lift(want2), som=True) != 0])
    # validation against the float library
    rng = np.random.default_rng(N + n)
    asg = {'b%d' % d: Fraction(int(rng.integers(-64, 64)), 64) for d in range(deg + 1)}
    cs = [float(asg['b%d' % d]) for d in range(deg + 1)]
    xf = np.array([float(v) for v in g])
    duf = fb.fd_derivative(cm.poly_fun(cs)(xf), xf, n, m)
    dus = np.array([float(v) for v in sn.evaluate(du, asg)])
    hmin = float(np.min(np.abs(np.diff(xf))))
    vtol = 1e-5 * (1 + np.max(np.abs(dus))) + 1e-12 * np.sum(np.abs(cs)) * (1 + np.max(np.abs(xf))) ** deg / hmin ** n * (2 * mm + 2) ** 2
    if np.max(np.abs(duf - dus)) > vtol:
        job.error('trace validation mismatch n=%d m=%d N=%d %s: %r vs %r' % (n, m, N, family, duf, dus))
    job.validated += 1


def symbolic(job, fb, N):
    n, m = 1, 1
    mm = 1
    xsym = [z3.Real('x%d' % i) for i in range(N)]
    b = [z3.Real('b%d' % d) for d in range(3)]
    distinct = [xsym[i] != xsym[j] for i in range(N) for j in range(i)]
    xs = np.empty(N, dtype=object)
    fx = np.empty(N, dtype=object)
    for i in range(N):
        xs[i] = sn.SymQ(xsym[i])
        fx[i] = sn.SymQ(b[0] + b[1] * xsym[i] + b[2] * xsym[i] * xsym[i])
    xs, fx = xs.view(sn.SymArr), fx.view(sn.SymArr)
    sn.SymQ.NONZERO.clear()

    def harness():
        with tr.traced():
            return fb.fd_derivative(fx, xs, n, m)
    path = sn.run_single(harness)
    job.paths += 1
    if path.exc is not None:
        raise path.exc
    du = np.asarray(path.result)
    job.confirm('length', du.shape == (N,))
    for dterm in list(sn.SymQ.NONZERO)[:200]:
        job.prove('denominator-nonzero', dterm != 0, distinct, dict(key='C16:division-by-zero', kind='symbolic', N=N))
    for i in range(N):
        want = sn.SymQ(b[1] + 2 * b[2] * xsym[i])
        job.prove('symbolic-grid du[%d]' % i, sn.SymQ.of(du[i]).eq_term(want), distinct,
                  dict(key='C16:symbolic-grid-point-inexact', kind='symbolic', N=N, index=i))


def guards(job, fb):
    g = grid('uniform-inc', 6, 0)
    xs = sn.SymArr([sn.const(v) for v in g])
    fx = sn.SymArr([sn.real_var('f%d' % i) for i in range(5)])

    def h1():
        with tr.traced():
            return fb.fd_derivative(fx, xs, 1, 1)
    ps = list(sn.Explorer(h1, max_paths=4).paths())
    if not job.confirm('length-mismatch raises', bool(ps) and all(isinstance(p.exc, ValueError) for p in ps)):
        job.violation('guard', dict(key='C16:guard-length-mismatch', kind='guard', which='len'))
    fx6 = sn.SymArr([sn.real_var('f%d' % i) for i in range(6)])

    def h2():
        with tr.traced():
            return fb.fd_derivative(fx6, xs, 6, 1)
    ps = list(sn.Explorer(h2, max_paths=4).paths())
    if not job.confirm('n>=len raises', bool(ps) and all(isinstance(p.exc, ValueError) for p in ps)):
        job.violation('guard', dict(key='C16:guard-n-too-large', kind='guard', which='n'))


# --------------------------------------------------------------------------
def replay(cex):
    fb = cm.nd_mods()['fb']
    cfg = cex['config']
    kind = cex.get('kind')
    asg = cm.assignment_from_model(cex.get('model', {}))
    if kind == 'intwitness':
        bad = int_witness_failures(fb)
        return (True, bad[0]) if bad else (False, 'integer-typed samples behave like floats')
    if kind == 'guard':
        xf = np.linspace(-1, 1, 6)
        try:
            if cex['which'] == 'len':
                fb.fd_derivative(np.ones(5), xf, 1, 1)
            else:
                fb.fd_derivative(np.ones(6), xf, 6, 1)
        except ValueError:
            return False, 'raises ValueError'
        except Exception as e:  # noqa
            return True, 'raises %s instead of ValueError' % type(e).__name__
        return True, 'misuse returned a result'
    n, m, N = cfg['n'], cfg['m'], cfg['N']
    mm = n // 2 + m
    deg = 2 * mm
    if cfg['kind'] == 'symbolic':
        xf = np.array([float(asg.get('x%d' % i, i)) for i in range(N)])
        if len(set(xf)) < N:
            xf = np.cumsum(np.linspace(0.1, 0.5, N))
        cs = [float(asg.get('b%d' % d, 1)) for d in range(3)]
        if not any(cs):
            cs = [1.0, -1.0, 0.5]
    else:
        xf = np.array([float(v) for v in grid(cfg['family'], N, cfg['seed'])])
        cs = [float(asg.get('b%d' % d, 0)) for d in range(deg + 1)]
        if not any(cs):
            cs = [1.0] * (deg + 1)
    cands = [cs, [1.0] * len(cs), [(-1.0) ** d * (d + 1) for d in range(len(cs))]]
    for c in cands:
        try:
            du = fb.fd_derivative(cm.poly_fun(c)(xf), xf, n, m)
        except Exception as e:  # noqa
            return True, 'fd_derivative raises %s: %s' % (type(e).__name__, e)
        if du.shape != xf.shape:
            return True, 'output shape %s for input %s' % (du.shape, xf.shape)
        want = np.array([float(cm.poly_deriv_at([Fraction(v) for v in c], n, Fraction(float(x)))) for x in xf])
        hmin = np.min(np.abs(np.diff(xf)))
        width = np.max(xf) - np.min(xf)
        # rounding of the samples (eps*|p|) is amplified by ~1/hmin^n; anything far above that is a wrong stencil
        tol = 1e-6 * np.max(np.abs(want)) + 1e-13 * np.sum(np.abs(c)) * (1 + np.max(np.abs(xf))) ** deg / hmin ** n * (2 * mm + 2) ** 2 + 1e-12
        bad = np.flatnonzero(np.abs(du - want) > tol)
        if bad.size:
            i = int(bad[0])
            return True, ('fd_derivative(n=%d, m=%d) on a %d-point grid, polynomial coefficients %s: du[%d]=%r, exact %r'
                          % (n, m, N, c, i, du[i], want[i]))
    return False, 'exact on the candidate polynomials'
