"""C18 (restricted) -- Limit and Residue recover removable singularities and poles.

 S  side of approach: the real ``Limit.__call__`` with a SYMBOLIC real z0 (radial path): every argument handed to the user
    function after the probe at z0 satisfies  z > z0  for 'above' and  z < z0  for 'below'  (z3, log of the nominal step
    uninterpreted); spiral path: z - z0 equals sign * (the generator's own steps).
 N  NaN-only replacement: f(z0) returns a vector in which the finite entries are fresh symbols and the others NaN (all
    patterns of length <= 3): finite entries come back as the SAME term with error_estimate 0 and final_step 0, and the
    limit machinery is invoked on exactly the NaN positions.
 A  algebra on the polynomial limit model f(z0 + w) = phi(w), phi SYMBOLIC of degree `order` (NaN at w = 0): every row the
    real Richardson stage produces inside ``_lim`` equals phi(0) within the backward-error bound, from above and below,
    radial and spiral (complex ratio), real and complex z0, real and complex coefficients; end to end with a short step
    sequence the returned value is within that bound of phi(0) on every selection path.
 R  Residue: f = g(z)/(z - z0)^p with SYMBOLIC polynomial g, p = 1, 2, 3: same two obligations with limit g(z0).
Transcendental kernels, the calibration of the error estimate and the rounding floor are outside the claim.
"""
from __future__ import annotations

import math
from fractions import Fraction

import numpy as np
import z3

from .. import symnum as sn
from .. import tracing as tr
from . import common as cm

ID = 'C18'
EPS = Fraction(1, 2 ** 52)
K_TOL = 4000

META = {
    'title': 'Limit / Residue on the polynomial limit model (restricted)',
    'level': 'other',
    'explanation': (
        'Solver-based bounded checking of the real Limit and Residue classes: the side of approach is proven for a symbolic '
        'expansion point; the NaN-only replacement is proven on symbolic finite entries for every NaN pattern; on the '
        'polynomial limit model with symbolic coefficients z3 (QF_LRA) proves that every Richardson row inside _lim and the '
        'returned value equal the limit within the backward-error bound, for above/below, radial/spiral, real/complex z0, and '
        'for poles of order 1..3 through Residue.'),
    'functions_encoded': ['numdifftools.limits.Limit.__init__/__call__/_call_lim/_lim/_fun/limit/_set_richardson_rule',
                          'numdifftools.limits.Residue.__init__/_fun/__call__', 'numdifftools.limits.CStepGenerator.*',
                          'numdifftools.limits._Limit._vstack/_extrapolate/_get_best_estimate',
                          'numdifftools.extrapolation.Richardson.__call__'],
    'bounds': {'quick': 'order 1..6, z0 in {0, 0.5, -1.25, 0.3+0.4i}, arrays of length <= 3, pole order 1..3, step_ratio 4 (default) and 2',
               'thorough': 'order 1..8, additionally step_ratio 16 and z0 array of mixed points'},
    'outside_claim': ['the removable-singularity kernels sin w/w, expm1 w/w, ... (transcendental)', 'calibration of the error estimate',
                      'rounding floor of f near the singular point'],
    'stubs': ['module global np -> symbolic numpy proxy', 'scipy convolve1d -> validated reference',
              'instance attribute _extrapolate replaced by a constant stub in obligation S only'],
    'assumptions': ['exact arithmetic; coefficients in [-1,1]', 'tolerance %d*eps*|w|_1*sum_j |h|^j' % K_TOL],
    'timeout_ms': {'quick': 60000, 'thorough': 120000},
}


def preflight(tier, seed):
    return {'convolve_stub_comparisons': tr.validate_convolve_stub(seed)}


Z0S = {'z0': 0.0, 'zhalf': 0.5, 'zneg': -1.25, 'zcplx': complex(0.3, 0.4)}


def jobs(tier, seed):
    th = tier == 'thorough'
    out = []
    for method in ('above', 'below'):
        for path in ('radial', 'spiral'):
            out.append(('side-%s-%s' % (method, path), dict(kind='side', method=method, path=path, order=4, zk='', p=0, ratio=4.0, cplx=False)))
    out.append(('nan-patterns', dict(kind='nan', method='above', path='radial', order=4, zk='', p=0, ratio=4.0, cplx=False)))
    orders = range(1, 9) if th else range(1, 7)
    for order in orders:
        for method in ('above', 'below'):
            for path in ('radial', 'spiral'):
                for zk in Z0S:
                    for ratio in ((4.0, 2.0, 16.0) if th else (4.0, 2.0)):
                        if ratio != 4.0 and (zk != 'z0' or path != 'radial'):
                            continue
                        cplx = zk == 'zcplx' or path == 'spiral'
                        out.append(('rows-o%d-%s-%s-%s-r%g' % (order, method, path, zk, ratio),
                                    dict(kind='rows', method=method, path=path, order=order, zk=zk, p=0, ratio=ratio, cplx=cplx)))
        for zk in ('z0', 'zhalf'):
            out.append(('e2e-o%d-%s' % (order, zk), dict(kind='e2e', method='above', path='radial', order=order, zk=zk, p=0, ratio=4.0, cplx=False)))
        if order in (2, 4):
            # the whole __call__ (not only the rows inside _lim) with complex-valued g, from below, along the spiral
            for method, path in ((('below', 'radial'), ('above', 'spiral')) if order == 2 else (('below', 'radial'),)):
                out.append(('e2e-o%d-zhalf-%s-%s-cplx' % (order, method, path),
                            dict(kind='e2e', method=method, path=path, order=order, zk='zhalf', p=0, ratio=4.0, cplx=True)))
    for p in (1, 2, 3):
        for zk in ('z0', 'zhalf'):
            for method in ('above', 'below'):
                out.append(('residue-p%d-%s-%s' % (p, zk, method), dict(kind='residue', method=method, path='radial', order=p + 2, zk=zk, p=p, ratio=4.0, cplx=False)))
        # an explicit approximation order above the pole order (the default is pole_order + 2)
        for order in (p + 1, p + 3, p + 4):
            out.append(('residue-p%d-order%d' % (p, order), dict(kind='residue', method='above', path='radial', order=order, zk='zhalf', p=p, ratio=4.0, cplx=False)))
    return out


def run_job(job, kind, method, path, order, zk, p, ratio, cplx):
    lim = cm.nd_mods()['lim']
    if kind == 'side':
        return side(job, lim, method, path)
    if kind == 'nan':
        return nan_patterns(job, lim)
    if kind == 'rows':
        return rows(job, lim, method, path, order, zk, ratio, cplx)
    if kind == 'e2e':
        return e2e(job, lim, order, zk, method, path, cplx)
    return residue(job, lim, p, zk, method, order)


# --------------------------------------------------------------------------
def side(job, lim, method, path):
    z0 = sn.real_var('z0')
    rec = []

    def f(z, *a, **k):
        rec.append(z)
        if len(rec) == 1:
            return float('nan')
        return 1.0 if path == 'radial' else complex(1.0, 0.0)
    info = lim._Limit.info

    def harness():
        del rec[:]
        with tr.traced(), cm.quiet():
            L = lim.Limit(f, method=method, path=path)
            L._extrapolate = lambda results, steps, shape: (np.zeros(shape), info(np.zeros(shape), np.zeros(shape), np.zeros(shape, dtype=int)))
            L(z0)
            steps = list(L.step(np.asarray(z0)))
            return list(rec), steps
    ex = sn.Explorer(harness, max_paths=64, timeout_ms=20000)
    paths = list(ex.paths())
    job.absorb_explorer(ex)
    for p in paths:
        if p.exc is not None:
            job.violation('raises', dict(key='C18:side:raises', kind='side', exc=repr(p.exc)[:200]))
            continue
        args, steps = p.result
        if not job.confirm('probe + one call per step', len(args) == len(steps) + 1):
            job.violation('calls', dict(key='C18:side:call-count', kind='side', got=len(args), steps=len(steps)))
            continue
        job.prove('probe at z0 itself', sn.lift(sn.as_symc(cm.flat_list(args[0])[0]).re) == z0.t, p.conds(), dict(key='C18:side:probe', kind='side'))
        sgn = 1 if method == 'above' else -1
        for a, s in zip(args[1:], steps):
            av = sn.as_symc(cm.flat_list(a)[0])
            sv = sn.as_symc(cm.flat_list(s)[0])
            if path == 'radial':
                claim = (sn.lift(av.re) > z0.t) if method == 'above' else (sn.lift(av.re) < z0.t)
                job.prove('argument %s z0' % ('>' if method == 'above' else '<'), z3.And(claim, sn.lift(av.im) == 0), p.conds(),
                          dict(key='C18:side:%s:wrong-side' % method, kind='side', method=method))
            job.prove('argument == z0 + sign*step', z3.And(sn.lift(av.re) == z0.t + sgn * sn.lift(sv.re), sn.lift(av.im) == sgn * sn.lift(sv.im)),
                      p.conds(), dict(key='C18:side:%s:not-z0-plus-step' % method, kind='side', method=method))


Z0_ORDER = [1.0, 0.5, 0.75, 0.25]


def nan_patterns(job, lim):
    nan = float('nan')
    for n, zshape, fortran in ((1, (1,), False), (2, (2,), False), (3, (3,), False), (4, (2, 2), False), (4, (2, 2), True)):
        for mask in range(1, 2 ** n):
            pattern = [(mask >> i) & 1 for i in range(n)]      # 1 = NaN at z0 (C order of the flattened z0)
            vals = [sn.real_var('v%d' % i) for i in range(n)]
            # points in NON-ascending order (a reordering of the singular points must be visible)
            z0flat = np.array(Z0_ORDER[:n])
            z0 = z0flat.reshape(zshape)
            if fortran:
                z0 = np.asfortranarray(z0)        # a z0 that is not C-contiguous (e.g. a transposed grid)
            calls = []

            def f(z, *a, **k):
                calls.append(np.asarray(z).copy())
                if len(calls) == 1:
                    out = np.empty(n, dtype=object)
                    for i in range(n):
                        out[i] = nan if pattern[i] else vals[i]
                    out = out.reshape(zshape)
                    # an elementwise function keeps the memory layout of its argument
                    return (np.asfortranarray(out) if fortran else out).view(sn.SymArr)
                # every point has its own limit value, identified by the point it is close to (steps are <= 2**-12)
                zz = np.real(np.asarray(z)).ravel()
                return np.array([10.0 + int(np.argmin(np.abs(z0flat - v))) for v in zz]).reshape(np.shape(z))

            def harness():
                del calls[:]
                with tr.traced(), cm.quiet():
                    return lim.Limit(f, step=2.0 ** -40, num_steps=9, full_output=True)(z0), [c.copy() for c in calls]
            p = sn.run_single(harness)
            job.paths += 1
            if p.exc is not None:
                job.violation('raises', dict(key='C18:nan:raises', kind='nan', exc=repr(p.exc)[:200], pattern=pattern))
                continue
            (val, info), cl = p.result
            vl, el, fl = cm.flat_list(val), cm.flat_list(info.error_estimate), cm.flat_list(info.final_step)
            ok = len(vl) == n and np.shape(val) == zshape
            z0 = z0.ravel()
            for i in range(n):
                if not pattern[i]:
                    ok &= vl[i] is vals[i] or (sn.is_sym(vl[i]) and z3.is_true(z3.simplify(sn.lift(vl[i]) == vals[i].t)))
                    ok &= float(el[i]) == 0.0 and float(np.real(fl[i])) == 0.0
                else:
                    ok &= (not sn.is_sym(vl[i])) and abs(float(np.real(vl[i])) - (10.0 + i)) < 1e-9
            nan_pos = [i for i in range(n) if pattern[i]]
            for c in cl[1:]:
                ok &= c.shape == (len(nan_pos),) and all(0 < abs(c[j] - z0[i]) < 0.01 for j, i in enumerate(nan_pos))
            if not job.confirm('pattern %s: finite entries returned unchanged, limit taken at the NaN positions only' % pattern, bool(ok)):
                job.violation('nan', dict(key='C18:nan:replacement', kind='nan', pattern=pattern, fortran=bool(fortran)))


# --------------------------------------------------------------------------
def _z0(zk):
    return Z0S[zk]


def poly_model(order, cplx, z0, p=0):
    """user function f(z) = phi(z - z0) / (z - z0)^p with symbolic phi; exact rational arithmetic on the float the library passes"""
    names, coefs = [], []
    for j in range(order + 1):
        if cplx:
            names += ['pr%d' % j, 'pi%d' % j]
            coefs.append(sn.SymC(sn.real_var('pr%d' % j), sn.real_var('pi%d' % j)))
        else:
            names.append('p%d' % j)
            coefs.append(sn.real_var('p%d' % j))
    z0r, z0i = Fraction(float(np.real(z0))), Fraction(float(np.imag(z0)))

    def one(zv):
        wr, wi = Fraction(float(np.real(zv))) - z0r, Fraction(float(np.imag(zv))) - z0i
        if wr == 0 and wi == 0:
            return float('nan')
        # Horner in exact (Gaussian) rationals with symbolic coefficients
        w = sn.SymC(sn.const(wr), sn.const(wi)) if (wi != 0 or cplx) else sn.const(wr)
        acc = coefs[order]
        for j in range(order - 1, -1, -1):
            acc = acc * w + coefs[j]
        if p:
            acc = acc / (w ** p)
        return acc

    def f(z, *a, **k):
        if np.ndim(z) == 0:
            return one(z)
        out = np.empty(np.shape(z), dtype=object)
        for idx in np.ndindex(np.shape(z)):
            out[idx] = one(np.asarray(z)[idx])
        return out.view(sn.SymArr)
    return f, names, coefs


def _parts(v):
    v = sn.as_symc(v if not isinstance(v, np.ndarray) else v[()])
    return [sn.lift(v.re), sn.lift(v.im)]


def rows(job, lim, method, path, order, zk, ratio, cplx):
    ex_mod = cm.nd_mods()['ex']
    z0 = _z0(zk)
    f, names, coefs = poly_model(order, cplx, z0)
    box = [z3.And(z3.Real(nm) >= -1, z3.Real(nm) <= 1) for nm in names]

    def harness():
        with tr.traced(), cm.quiet():
            L = lim.Limit(f, method=method, order=order, path=path, step_ratio=ratio)
            z = np.atleast_1d(np.asarray(z0))
            sign = 1 if method == 'above' else -1
            steps = [sign * s for s in L.step(z)]
            L._set_richardson_rule(L.step.step_ratio, L.order + 1)
            seq = [L._fun(z, h, (), {}) for h in steps]
            f_del, hh, shape = L._vstack(seq, steps)
            new, err, st = L.richardson(f_del, hh)
            w = L.richardson.rule(len(steps))
            return new, np.asarray(hh), float(np.sum(np.abs(w)))
    p = sn.run_single(harness, assumptions=box)
    job.paths += 1
    if p.exc is not None:
        job.violation('raises', dict(key='C18:rows:raises:%s' % type(p.exc).__name__, kind='rows', exc=repr(p.exc)[:300]))
        return
    new, hh, w1 = p.result
    new = np.asarray(new)
    want = _parts(coefs[0])
    tight = 0
    for i in range(new.shape[0]):
        hi = Fraction(float(abs(hh[i, 0])))
        tau = K_TOL * EPS * Fraction(w1) * sum(hi ** j for j in range(order + 1)) * 2
        if tau >= Fraction(1, 1000):
            job.excluded += 1
            continue
        tight += 1
        got = _parts(new[i, 0])
        claims = []
        for a, b in zip(got, want):
            claims += [a - b <= sn.ratval(tau), b - a <= sn.ratval(tau)]
        job.prove('row %d == phi(0)' % i, z3.And(*claims), box,
                  dict(key='C18:rows:%s:%s:limit-missed' % (method, path), kind='rows', row=i, names=names, tau=float(tau), stronger_than_property=True))
    job.confirm('rows checked', tight > 0)
    # twin: degree order+2 leaves a visible remainder in the first row
    f2, names2, coefs2 = poly_model(order + 2, cplx, z0)
    box2 = [z3.And(z3.Real(nm) >= -1, z3.Real(nm) <= 1) for nm in names2]

    def harness2():
        with tr.traced(), cm.quiet():
            L = lim.Limit(f2, method=method, order=order, path=path, step_ratio=ratio)
            z = np.atleast_1d(np.asarray(z0))
            sign = 1 if method == 'above' else -1
            steps = [sign * s for s in L.step(z)]
            L._set_richardson_rule(L.step.step_ratio, L.order + 1)
            seq = [L._fun(z, h, (), {}) for h in steps]
            f_del, hh, shape = L._vstack(seq, steps)
            return L.richardson(f_del, hh)[0]
    new2 = np.asarray(sn.run_single(harness2, assumptions=box2).result)
    d2 = _parts(new2[0, 0])[0] - _parts(coefs2[0])[0]
    job.twin('degree order+2 visible', box2 + [d2 != 0])


def e2e(job, lim, order, zk, method='above', path='radial', cplx=False):
    z0 = _z0(zk)
    f, names, coefs = poly_model(order, cplx, z0)
    box = [z3.And(z3.Real(nm) >= -1, z3.Real(nm) <= 1) for nm in names]

    def harness():
        with tr.traced(), sn.abstract_division(products=True), cm.quiet():
            L = lim.Limit(f, step=4.0 ** -(order + 2), order=order, full_output=True, num_steps=order + 3, step_ratio=4.0,
                          method=method, path=path)
            return L(z0)
    ex = sn.Explorer(harness, assumptions=box, max_paths=64, timeout_ms=20000)
    paths = list(ex.paths())
    job.absorb_explorer(ex)
    tau = sn.ratval(Fraction(1, 10 ** 9))
    for p in paths:
        if p.exc is not None:
            job.violation('raises', dict(key='C18:e2e:raises:%s' % type(p.exc).__name__, kind='e2e', exc=repr(p.exc)[:300]))
            continue
        val, info = p.result
        v = sn.as_symc(cm.flat_list(val)[0])
        wre, wim = _parts(coefs[0])
        dr, di = sn.lift(v.re) - wre, sn.lift(v.im) - wim
        # one claim per part: two small LRA queries instead of one conjunction (the spiral / complex case needed up to 60 s)
        for part, dd in (('real part', dr), ('imaginary part', di)):
            job.prove('Limit(f)(z0) == phi(0) [%s]' % part, z3.And(dd <= tau, -dd <= tau), p.conds(),
                      dict(key='C18:e2e:limit-missed', kind='e2e', names=names, stronger_than_property=True), timeout_ms=600000)
        e = cm.flat_list(info.error_estimate)[0]
        job.prove('error_estimate >= 0', sn.lift(e) >= 0, p.conds(), dict(key='C18:e2e:negative-error', kind='e2e'))


def residue(job, lim, pole, zk, method, order=None):
    z0 = _z0(zk)
    explicit = order is not None and order != pole + 2
    order = pole + 2 if order is None else order
    f, names, coefs = poly_model(order, False, z0, p=pole)
    box = [z3.And(z3.Real(nm) >= -1, z3.Real(nm) <= 1) for nm in names]

    def harness():
        with tr.traced(), cm.quiet():
            R = lim.Residue(f, method=method, pole_order=pole, **(dict(order=order) if explicit else {}))
            z = np.atleast_1d(np.asarray(z0))
            sign = 1 if method == 'above' else -1
            steps = [sign * s for s in R.step(z)]
            R._set_richardson_rule(R.step.step_ratio, R.order + 1)
            seq = [R._fun(z, h, (), {}) for h in steps]
            f_del, hh, shape = R._vstack(seq, steps)
            new, err, st = R.richardson(f_del, hh)
            return new, np.asarray(hh), float(np.sum(np.abs(R.richardson.rule(len(steps))))), R.order
    p = sn.run_single(harness, assumptions=box)
    job.paths += 1
    if p.exc is not None:
        job.violation('raises', dict(key='C18:residue:raises:%s' % type(p.exc).__name__, kind='residue', exc=repr(p.exc)[:300]))
        return
    new, hh, w1, used_order = p.result
    if not job.confirm('order used = %s' % ('the given order' if explicit else 'pole_order + 2'), used_order == order):
        job.violation('order', dict(key='C18:residue:p%d:order-not-honoured' % pole, kind='residue', got=int(used_order), want=order))
    new = np.asarray(new)
    tight = 0
    for i in range(new.shape[0]):
        hi = Fraction(float(abs(hh[i, 0])))
        tau = K_TOL * EPS * Fraction(w1) * sum(hi ** j for j in range(order + 1)) * 2
        if tau >= Fraction(1, 1000):
            job.excluded += 1
            continue
        tight += 1
        d = z3.simplify(sn.lift(new[i, 0]) - sn.lift(coefs[0]), som=True)
        job.prove('residue row %d == g(z0)' % i, z3.And(d <= sn.ratval(tau), -d <= sn.ratval(tau)), box,
                  dict(key='C18:residue:p%d:wrong-residue' % pole, kind='residue', row=i, names=names, tau=float(tau), stronger_than_property=True))
    job.confirm('rows checked', tight > 0)


# --------------------------------------------------------------------------
def replay(cex):
    lim = cm.nd_mods()['lim']
    cfg = cex['config']
    kind = cfg['kind']
    rng = np.random.default_rng(2)
    method, path, order, zk, pole, ratio, cplx = (cfg[k] for k in ('method', 'path', 'order', 'zk', 'p', 'ratio', 'cplx'))
    if kind == 'side':
        for z0 in (0.0, 0.5, -3.0, 40.0):
            rec = []

            def f(z):
                rec.append(z)
                return np.nan if len(rec) == 1 else 1.0
            with cm.quiet():
                lim.Limit(f, method=method, path=path)(z0)
            if path == 'radial':
                bad = [z for z in rec[1:] if (np.real(z) <= z0 if method == 'above' else np.real(z) >= z0) or np.imag(z) != 0]
                if bad:
                    return True, "Limit(method=%r) evaluates f at %r for z0=%r" % (method, bad[0], z0)
        return False, 'evaluation side correct at the probe points'
    if kind == 'nan':
        pattern = cex.get('pattern', [1])
        n = len(pattern)
        zshape = (2, 2) if n == 4 else (n,)
        z0flat = np.array(Z0_ORDER[:n])
        z0 = z0flat.reshape(zshape)
        fortran = bool(cex.get('fortran'))
        if fortran:
            z0 = np.asfortranarray(z0)
        vals = rng.normal(size=n)
        calls = []

        def f(z):
            calls.append(1)
            if len(calls) == 1:
                out = np.where(np.array(pattern) == 1, np.nan, vals).reshape(zshape)
                return np.asfortranarray(out) if fortran else out
            zz = np.real(np.asarray(z)).ravel()
            return np.array([10.0 + int(np.argmin(np.abs(z0flat - v))) for v in zz]).reshape(np.shape(z))
        try:
            with cm.quiet():
                val, info = lim.Limit(f, step=2.0 ** -40, num_steps=9, full_output=True)(z0)
        except Exception as e:  # noqa
            return True, 'Limit raises %s: %s for NaN pattern %s' % (type(e).__name__, e, pattern)
        if np.shape(val) != zshape:
            return True, 'result shape %s for z0 of shape %s' % (np.shape(val), zshape)
        val, ee = np.ravel(val), np.ravel(info.error_estimate)
        info = info._replace(error_estimate=ee)
        for i in range(n):
            if not pattern[i] and (val[i] != vals[i] or info.error_estimate[i] != 0):
                return True, 'finite entry %d changed from %r to %r (pattern %s)' % (i, vals[i], val[i], pattern)
            if pattern[i] and abs(val[i] - (10.0 + i)) > 1e-9:
                return True, 'NaN entry %d replaced by %r, the limit at that point is %r (pattern %s)' % (i, val[i], 10.0 + i, pattern)
        return False, 'NaN-only replacement ok'
    z0 = _z0(zk)
    for trial in range(4):
        deg = order
        cs = rng.uniform(-1, 1, size=deg + 1) + (1j * rng.uniform(-1, 1, size=deg + 1) if cplx else 0)

        def f(z):
            w = z - z0
            with np.errstate(all='ignore'):
                val = sum(cs[j] * w ** j for j in range(deg + 1))
                val = np.where(w == 0, np.nan, val)
                return val / w ** pole if pole else val
        try:
            with cm.quiet():
                if kind == 'residue':
                    got = lim.Residue(f, method=method, pole_order=pole, **(dict(order=order) if order != pole + 2 else {}))(z0)
                else:
                    got = lim.Limit(f, method=method, order=order, path=path, step_ratio=ratio)(z0)
        except Exception as e:  # noqa
            return True, '%s raises %s: %s at z0=%r' % ('Residue' if kind == 'residue' else 'Limit', type(e).__name__, e, z0)
        if abs(np.ravel(got)[0] - cs[0]) > 1e-6 * (1 + abs(cs[0])):
            return True, ('%s(method=%s, order=%d, path=%s)(%r) = %r for f(z0+w) = polynomial with constant term %r'
                          % ('Residue(pole_order=%d)' % pole if kind == 'residue' else 'Limit', method, order, path, z0, np.ravel(got)[0], cs[0]))
    return False, 'limit recovered on random polynomial models'
