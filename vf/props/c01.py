"""C01 (restricted) -- Derivative returns the n-th derivative: exactness on the polynomial
family of exactness degree, for all coefficients, through the real pipeline.

For every configuration (method, n, order, step options, point x) the real
``Derivative._derivative`` (difference functions -> LogRule.apply) and the real
``Richardson.__call__`` are executed on ``f(t) = sum_p a_p t**p`` with symbolic
coefficients (complex pairs for the complex-valued clause), ``deg f = n + method_order - 1``.
Every produced row is a linear term in the a_p.  z3 decides, for all a in [-1,1]^(D+1):

    |row_i(a) - f^(n)(x)(a)| <= tau_i

with tau_i the backward-error bound of the pinv-produced rule
(tau_i = K*eps*|w|_1 * sum_k F_k h_i^(k-n), F_k >= |f^(k)(x)| on the box).
n = 0: the real __call__ returns the very term f(x).
Counterexamples are replayed on the *final* value of the untouched library.
"""
from __future__ import annotations

import math
from fractions import Fraction

import numpy as np
import z3

from .. import symnum as sn
from .. import tracing as tr
from . import common as cm

ID = 'C01'
EPS = Fraction(1, 2 ** 52)
K_TOL = 2000

META = {
    'title': 'Derivative exact on the polynomial family of exactness degree (restricted)',
    'level': 'other',
    'explanation': (
        'Solver-based bounded checking of the real code, RESTRICTED sub-claim of C01: the real Derivative pipeline '
        '(difference function chosen by LogRule.diff, LogRule.apply with the pinv-produced rule, Richardson.__call__) is '
        'executed symbolically on polynomials with symbolic coefficients of degree n+method_order-1 (the degree up to which '
        'truncation error is zero); every derivative estimate row before and after Richardson extrapolation is proven by z3 '
        '(QF_LRA) to equal the independently computed n-th derivative for ALL coefficient values in [-1,1] within a '
        'backward-error bound of the floating-point rule; n=0 returns the term f(x) itself. Transcendental f, truncation '
        'behaviour and IEEE rounding are outside this claim.'),
    'functions_encoded': [
        'numdifftools.core.Derivative.__init__/__call__/_derivative_nonzero_order/_derivative_zero_order/_get_functions/'
        '_get_steps/_eval_first/set_richardson_rule',
        'numdifftools.finite_difference.DifferenceFunctions.* (all 11)', 'LogRule.diff/rule/apply/_apply/_vstack',
        'numdifftools.extrapolation.Richardson.__call__/rule/_estimate_error', 'numdifftools.limits._Limit._vstack',
        'numdifftools.multicomplex.Bicomplex.__init__/__add__/__mul__/__radd__/__rmul__/imag/imag12',
        'numdifftools.step_generators.* (concrete side)'],
    'bounds': {
        'quick': 'methods central/forward/backward n<=4, complex n<=8, multicomplex n<=2; order 1..4; x in {0, 1e-3, 0.5, '
                 '-2.5, 100} and one array; default generator, scalar step and a default-constructed MinStepGenerator; real and complex coefficients',
        'thorough': 'central/forward/backward n<=6, complex n<=10; order 1..8; two further user generators; x array of shape (2,2)',
    },
    'outside_claim': ['every non-polynomial f of the C01 quantifier (truncation behaviour, accuracy envelope)',
                      'IEEE rounding inside f and the difference quotient',
                      'selection of the final estimate (covered by the C02 lemmas)',
                      'Bicomplex elementary functions (C12)'],
    'stubs': ['scipy.ndimage.convolve1d -> pure-python reference (differentially validated on every run)',
              'module global np -> symbolic numpy proxy'],
    'assumptions': ['exact real arithmetic with the library float constants and LAPACK weights as exact rationals',
                    'coefficients a_p in [-1, 1]',
                    'tolerance tau_i = %d*eps*|w|_1*sum_k F_k h_i^(k-n) (backward error of pinv); rows with tau_i >= 1e-3*scale '
                    'are counted as numerically singular and excluded' % K_TOL],
    'timeout_ms': {'quick': 60000, 'thorough': 120000},
}

# the points are the exact rational values of the floats handed to the library
XS = {'x0': [Fraction(0.0)], 'xsmall': [Fraction(1e-3)], 'xhalf': [Fraction(0.5)], 'xneg': [Fraction(-2.5)],
      'xbig': [Fraction(100.0)], 'xarr': [Fraction(0.5), Fraction(-0.75)],
      'xarr22': [Fraction(0.5), Fraction(-0.75), Fraction(2.0), Fraction(0.3)]}
XSHAPE = {'xarr': (2,), 'xarr22': (2, 2)}


def preflight(tier, seed):
    n = tr.validate_convolve_stub(seed)
    return {'convolve_stub_comparisons': n}


def jobs(tier, seed):
    th = tier == 'thorough'
    nmax = dict(central=6, forward=6, backward=6, complex=10, multicomplex=2) if th else \
        dict(central=4, forward=4, backward=4, complex=8, multicomplex=2)
    orders = range(1, 9) if th else range(1, 5)
    out = []
    for method in cm.METHODS5:
        for n in range(0, nmax[method] + 1):
            for order in orders:
                if n == 0 and order > 2:
                    continue
                for xk in (['x0', 'xsmall', 'xhalf', 'xneg', 'xbig', 'xarr'] + (['xarr22'] if th else [])):
                    for sm in (['default', 'scalar', 'mingen'] + (['minopts', 'maxopts'] if th else [])):
                        if not th and xk in ('xsmall', 'xneg', 'xbig') and sm != 'default':
                            continue
                        if sm == 'mingen' and xk not in ('xhalf', 'xarr'):
                            continue
                        cplx_opts = [False]
                        if method in ('central', 'forward', 'backward') and xk in ('xhalf', 'xarr') and order in (1, 2):
                            cplx_opts = [False, True]
                        for cplx in cplx_opts:
                            out.append(('%s-n%d-o%d-%s-%s%s' % (method, n, order, xk, sm, '-cplx' if cplx else ''),
                                        dict(method=method, n=n, order=order, xk=xk, stepmode=sm, cplx=cplx)))
    return out


def _step(stepmode, nd):
    if stepmode == 'default':
        return None
    if stepmode == 'scalar':
        return 0.25
    if stepmode == 'mingen':
        return nd.MinStepGenerator()          # user-supplied generator object, every option at its default
    if stepmode == 'minopts':
        return nd.MinStepGenerator(base_step=0.125, step_ratio=4.0, num_extrap=3, step_nom=1.0)
    if stepmode == 'maxopts':
        return nd.MaxStepGenerator(base_step=1.0, step_ratio=3.0, num_steps=9, offset=-1, step_nom=1.0)
    raise ValueError(stepmode)


def make_x(xk, symbolic=False):
    vals = XS[xk]
    if xk in XSHAPE:
        return np.array([float(v) for v in vals]).reshape(XSHAPE[xk])
    return float(vals[0])


def trace(cfg, coefs):
    """the real pipeline up to (and including) Richardson; works for symbolic or numeric coefs"""
    nd = cm.nd_mods()['nd']
    f = cm.poly_fun(coefs)
    d = nd.Derivative(f, step=_step(cfg['stepmode'], nd), method=cfg['method'], order=cfg['order'], n=cfg['n'])
    x_i = np.asarray(make_x(cfg['xk']))
    with cm.quiet(), np.errstate(all='ignore'):
        (der, h, shape), fx = d._derivative(x_i, (), {})
        rr, _err, hh = d.richardson(der, h)
        steps, ratio = d._get_steps(x_i)
        w = d.fd_rule.rule(ratio)
        rw = d.richardson.rule(np.shape(der)[0])
    return dict(der=der, h=np.asarray(h, dtype=float), shape=shape, fx=fx, rr=rr, hh=np.asarray(hh, dtype=float),
                w1=float(np.sum(np.abs(w))), rw=np.abs(np.asarray(rw)).astype(float),
                mo=d.method_order, rstep=d.fd_rule.richardson_step)


def degree(cfg):
    fd = cm.nd_mods()['fd']
    r = fd.LogRule(n=cfg['n'], method=cfg['method'], order=cfg['order'])
    if cfg['method'] == 'multicomplex':
        # no finite-difference rule is applied: the bicomplex quotient itself is exact to h**2 only
        return cfg['n'] + 1
    return cfg['n'] + r.method_order - 1


def make_coefs(D, cplx, extra=0):
    names = []
    coefs = []
    for p in range(D + 1 + extra):
        if cplx:
            names += ['ar%d' % p, 'ai%d' % p]
            coefs.append(sn.SymC(sn.real_var('ar%d' % p), sn.real_var('ai%d' % p)))
        else:
            names.append('a%d' % p)
            coefs.append(sn.real_var('a%d' % p))
    return names, coefs


def F_bounds(D, n, xs, cplx):
    """F_k >= |f^(k)(x)| for |a_p|<=1 (complex: modulus <= sqrt2 -> factor 2), per column"""
    out = []
    for x in xs:
        ax = abs(x)
        col = {}
        for k in range(0, D + 1):
            col[k] = sum(Fraction(math.perm(p, k)) * ax ** (p - k) for p in range(k, D + 1)) * (2 if cplx else 1)
        out.append(col)
    return out


def row_tolerances(cfg, T, D, cplx):
    """tau[i][c] for der rows and Richardson rows, scale[c]"""
    n = cfg['n']
    xs = XS[cfg['xk']]
    Fb = F_bounds(D, n, xs, cplx)
    w1 = Fraction(T['w1'])
    h = T['h']
    k_eps = K_TOL * EPS
    tau = []
    # rounding of the evaluation points fl(x +- h): |fdel error| <= eps*(|x|+h0)*sup|f'|
    h0 = [Fraction(float(np.max(np.abs(h[:, c])))) for c in range(h.shape[1])]
    Fnear = F_bounds(D, n, [abs(x) + 2 * h0[c] for c, x in enumerate(xs)], cplx)
    for i in range(h.shape[0]):
        row = []
        for c in range(h.shape[1]):
            hi = Fraction(float(h[i, c]))
            s = sum(Fb[c][k] * hi ** (k - n) for k in range(1, D + 1)) if n > 0 else Fb[c][0]
            pt = 8 * EPS * (abs(xs[c]) + 2 * h0[c]) * Fnear[c][1] / hi ** n if D >= 1 else 0
            row.append(w1 * (k_eps * s + pt))
        tau.append(row)
    scale = [max(Fb[c][n], Fraction(1, 10 ** 6)) for c in range(len(xs))]
    rw = [Fraction(float(v)) for v in T['rw']]
    tau_r = []
    m = np.shape(T['rr'])[0]
    for i in range(m):
        row = []
        for c in range(len(xs)):
            t = sum(rw[l] * tau[min(i + l, len(tau) - 1)][c] for l in range(len(rw)))
            t += k_eps * sum(rw) * Fb[c][n]
            row.append(t)
        tau_r.append(row)
    return tau, tau_r, scale


def _parts(v, cplx):
    """list of (label, z3 term) for an output entry"""
    if cplx:
        v = sn.as_symc(v)
        return [('re', sn.lift(v.re)), ('im', sn.lift(v.im))]
    if isinstance(v, sn.SymC):
        raise sn.Unsupported('complex entry in a real-coefficient trace')
    return [('', sn.lift(v))]


def run_job(job, method, n, order, xk, stepmode, cplx):
    cfg = dict(method=method, n=n, order=order, xk=xk, stepmode=stepmode, cplx=cplx)
    xs = XS[xk]
    if n == 0:
        return run_zero_order(job, cfg)
    D = degree(cfg)
    names, coefs = make_coefs(D, cplx)
    box = [z3.And(z3.Real(nm) >= -1, z3.Real(nm) <= 1) for nm in names]

    def harness():
        with tr.traced():
            return trace(cfg, coefs)

    path = sn.run_single(harness, assumptions=box)
    job.paths += 1
    if path.exc is not None:
        raise path.exc
    T = path.result
    oracle = [cm.poly_deriv_at(coefs, n, x) for x in xs]
    tau, tau_r, scale = row_tolerances(cfg, T, D, cplx)
    der = np.asarray(T['der'])
    rr = np.asarray(T['rr'])
    job.confirm('shape', der.shape[1] == len(xs) and T['h'].shape == der.shape)
    tight = 0
    for (rows, taus, stage) in ((der, tau, 'rule'), (rr, tau_r, 'richardson')):
        for i in range(rows.shape[0]):
            for c in range(rows.shape[1]):
                t = taus[i][c]
                if t >= scale[c] / 1000:
                    job.excluded += 1
                    continue
                tight += 1
                for (lab, term), (_l2, oterm) in zip(_parts(rows[i, c], cplx), _parts(oracle[c], cplx)):
                    dev = term - oterm
                    job.prove('%s-row%d-col%d%s' % (stage, i, c, lab), z3.And(dev <= sn.ratval(t), -dev <= sn.ratval(t)), box,
                              dict(key='C01:%s:n%d:o%d:%s:%s-row-inexact' % (method, n, order, stepmode, stage), kind='row',
                                   stage=stage, row=i, col=c, names=names, tau=float(t), stronger_than_property=True))
    if tight == 0:
        job.notes.append('%s: all rows numerically singular (excluded)' % job.name)
    # f_value bookkeeping: the value handed back as f(x) is f(x)
    if T['fx'] is not None and not (isinstance(T['fx'], float) and T['fx'] == 0.0):
        fxs = cm.flat_list(T['fx'])
        fexp = [cm.poly_fun(coefs)(x) for x in xs]
        if len(fxs) == len(fexp):
            for c in range(len(xs)):
                for (lab, a), (_l, b) in zip(_parts(fxs[c], cplx), _parts(fexp[c], cplx)):
                    job.prove('fx-col%d%s' % (c, lab), a == b, box, dict(key='C01:%s:fx-wrong' % method, kind='fx'))
    # vacuity twin: one degree higher must break the first rule row (only where the steps are large enough to see it)
    h00 = float(T['h'][0, 0])
    if h00 >= 0.01 and tight and float(tau[0][0]) * 4 < 1e-4 * min(h00, 1.0) ** T['mo'] * float(scale[0]) / (1 + float(abs(xs[0]))) ** (D + 1):
        names2, coefs2 = make_coefs(D, cplx, extra=1)
        box2 = [z3.And(z3.Real(nm) >= -1, z3.Real(nm) <= 1) for nm in names2]

        def harness2():
            with tr.traced():
                return trace(cfg, coefs2)
        T2 = sn.run_single(harness2, assumptions=box2).result
        o2 = cm.poly_deriv_at(coefs2, n, xs[0])
        term = _parts(np.asarray(T2['der'])[0, 0], cplx)[0][1]
        ot = _parts(o2, cplx)[0][1]
        job.twin('degree D+1 breaks the first row', box2 + [term - ot != 0])
    _validate(job, cfg, T, names, coefs, cplx, D)


def run_zero_order(job, cfg):
    xs = XS[cfg['xk']]
    cplx = cfg['cplx']
    D = 2
    names, coefs = make_coefs(D, cplx)
    box = [z3.And(z3.Real(nm) >= -1, z3.Real(nm) <= 1) for nm in names]
    nd = cm.nd_mods()['nd']

    def harness():
        with tr.traced():
            f = cm.poly_fun(coefs)
            d = nd.Derivative(f, step=_step(cfg['stepmode'], nd), method=cfg['method'], order=cfg['order'], n=0,
                              full_output=True)
            with cm.quiet():
                return d(make_x(cfg['xk']))
    ex = sn.Explorer(harness, assumptions=box, max_paths=64, timeout_ms=20000)
    paths = list(ex.paths())
    job.absorb_explorer(ex)
    for p in paths:
        if p.exc is not None:
            job.violation('n0-raises', dict(key='C01:n0:raises:%s' % type(p.exc).__name__, kind='raises',
                                            exc=repr(p.exc)[:300]))
            continue
        val, info = p.result
        vals = cm.flat_list(val)
        job.confirm('n0-shape', np.shape(val) == np.shape(make_x(cfg['xk'])))
        for c, x in enumerate(xs):
            fe = cm.poly_fun(coefs)(x)
            for (lab, a), (_l, b) in zip(_parts(vals[c], cplx), _parts(fe, cplx)):
                job.prove('n0-value-col%d%s' % (c, lab), a == b, p.conds(),
                          dict(key='C01:n0:value-not-f(x)', kind='n0', names=names))
        errs = cm.flat_list(info.error_estimate)
        for c in range(len(xs)):
            e = errs[c]
            if sn.is_sym(e):
                job.prove('n0-err-nonneg-col%d' % c, sn.lift(e) >= 0, p.conds(), dict(key='C01:n0:negative-error', kind='n0'))
            else:
                job.confirm('n0-err-finite', np.isfinite(float(e)) and float(e) >= 0)


def numeric_coefs(asg, D, cplx, extra=0):
    out = []
    for p in range(D + 1 + extra):
        if cplx:
            out.append(complex(float(asg.get('ar%d' % p, 0)), float(asg.get('ai%d' % p, 0))))
        else:
            out.append(float(asg.get('a%d' % p, 0)))
    return out


def _validate(job, cfg, T, names, coefs, cplx, D):
    rng = np.random.default_rng(abs(hash(job.name)) % (2 ** 32))
    asg = {nm: Fraction(int(rng.integers(-64, 65)), 64) for nm in names}
    Tc = trace(cfg, numeric_coefs(asg, D, cplx))
    n = cfg['n']
    derc = np.asarray(Tc['der'])
    ders = np.asarray(T['der'])
    if derc.shape != ders.shape:
        job.error('trace validation: shape %s vs %s' % (ders.shape, derc.shape))
        return
    for i in range(ders.shape[0]):
        for c in range(ders.shape[1]):
            sv = sn.evaluate(ders[i, c], asg)
            sv = complex(float(sv[0]), float(sv[1])) if isinstance(sv, tuple) else float(sv)
            cv = derc[i, c]
            hi = float(T['h'][i, c])
            tol = 1e-9 * (1 + abs(sv)) + 1e-12 * T['w1'] * (D + 2) * (1 + abs(float(XS[cfg['xk']][c])) + hi) ** D / hi ** n
            if abs(sv - cv) > tol:
                job.error('trace validation mismatch row %d col %d: symbolic %r vs library %r (tol %.3g)' % (i, c, sv, cv, tol))
                return
    job.validated += 1


# --------------------------------------------------------------------------
def final_envelope(cfg, scale):
    n = cfg['n']
    rel = 1e-6 if n <= 2 else (1e-4 if n <= 4 else 1e-2)
    return rel * scale


def replay(cex):
    cfg = cex['config']
    kind = cex.get('kind')
    nd = cm.nd_mods()['nd']
    asg = cm.assignment_from_model(cex.get('model', {}))
    cplx = cfg['cplx']
    xs = XS[cfg['xk']]
    if cfg['n'] == 0:
        cs = numeric_coefs(asg, 2, cplx)
        f = cm.poly_fun(cs)
        try:
            with cm.quiet():
                val = nd.Derivative(f, step=_step(cfg['stepmode'], nd), method=cfg['method'], order=cfg['order'], n=0)(make_x(cfg['xk']))
        except Exception as e:  # noqa
            return True, 'n=0 raises %s: %s' % (type(e).__name__, e)
        want = f(np.asarray(make_x(cfg['xk'])))
        if not np.allclose(val, want, rtol=1e-14, atol=0):
            return True, 'n=0 returned %r, f(x)=%r' % (val, want)
        return False, 'n=0 returns f(x)'
    D = degree(cfg)
    cands = [numeric_coefs(asg, D, cplx)]
    # worst-case polynomial for the failing row: a_p = sign of the row's coefficient error
    try:
        names, coefs = make_coefs(D, cplx)

        def harness():
            with tr.traced():
                return trace(cfg, coefs)
        T = sn.run_single(harness).result
        stage = cex.get('stage', 'rule')
        rows = np.asarray(T['der'] if stage == 'rule' else T['rr'])
        i, c = cex.get('row', 0), cex.get('col', 0)
        oracle = cm.poly_deriv_at(coefs, cfg['n'], xs[c])
        for (lab, term), (_l, ot) in zip(_parts(rows[i, c], cplx), _parts(oracle, cplx)):
            lc = cm.lin_coeffs(term - ot, names)
            worst = {nm: Fraction(1 if lc[nm] >= 0 else -1) for nm in names}
            cands.append(numeric_coefs(worst, D, cplx))
    except Exception:  # noqa
        pass
    worst_detail = None
    for cs in cands:
        f = cm.poly_fun(cs)
        try:
            with cm.quiet():
                val = nd.Derivative(f, step=_step(cfg['stepmode'], nd), method=cfg['method'], order=cfg['order'],
                                    n=cfg['n'])(make_x(cfg['xk']))
        except Exception as e:  # noqa
            return True, 'Derivative raises %s: %s for coefficients %s' % (type(e).__name__, e, cs)
        vals = np.asarray(val).ravel()
        for c, x in enumerate(xs):
            want = complex(cm.poly_deriv_at(cs, cfg['n'], float(x)))
            scale = sum(abs(cm.poly_deriv_at([1.0] * (D + 1), k, abs(float(x)))) for k in range(cfg['n'], D + 1))
            got = complex(vals[c])
            if not abs(got - want) <= final_envelope(cfg, scale):
                return True, ('Derivative(n=%d, method=%s, order=%d, step=%s)(x=%s) = %r but exact derivative of the polynomial '
                              'with coefficients %s is %r' % (cfg['n'], cfg['method'], cfg['order'], cfg['stepmode'], float(x),
                                                              got, cs, want))
            worst_detail = 'final value within envelope (got %r want %r)' % (got, want)
    return False, worst_detail or 'no deviation'
