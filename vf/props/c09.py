"""C09 (restricted) -- results depend only on (function, point, configuration), not on history.

The three carriers of hidden state are checked with inductive / two-step symbolic harnesses:

 K  rule cache: ``FD_RULES`` is replaced by a symbolic dictionary (lookups compare keys with solver-decided equality)
    and ``_fd_matrix`` / ``pinv`` by token constructors that remember their arguments.  With SYMBOLIC integers
    n1, order1, n2, order2 (unbounded, >= 1), symbolic step ratios and every pair of methods:
        clear; LogRule(c1).rule(r1); warm = LogRule(c2).rule(r2)      vs      clear; cold = LogRule(c2).rule(r2)
    every feasible path must give warm == cold (matrix arguments, row index, sign).  A cache key that forgets a
    component of what the matrix depends on yields a feasible path with warm != cold, replayed on the real cache.
    Entries are independent, so two steps cover histories of any length.
 G  step-generator state: from an ARBITRARY symbolic pre-state (x', method', n', order') one call of
    ``step_generator_function(x, method, n, order)`` returns a generator whose base step, ratio, count and offset
    contain no primed symbol, and no branch decision mentions one (the remembered state is dead).
 O  object reuse and setter round trips on the real ``Derivative``: (i) n / order / method are changed to symbolic
    other values and restored: the configuration digest (n, order, method, method_order, richardson_step, difference
    function, parity, flip, eval_first_condition, derivative routine) equals a fresh object's; (ii) a call at another
    point, a call of another Derivative sharing the same step generator, then the original call again: the value and the
    error estimate are the same terms as those of a fresh object.
Concurrent use from several threads is NOT covered (no symbolic engine for Python thread interleavings here).
"""
from __future__ import annotations

import itertools
from fractions import Fraction

import os

import numpy as np
import z3

from .. import symnum as sn
from .. import tracing as tr
from . import common as cm

ID = 'C09'
METHODS4 = ['central', 'forward', 'backward', 'complex']

META = {
    'title': 'history independence of the three state carriers (restricted)',
    'level': 'other',
    'explanation': (
        'Solver-based checking of history independence by inductive harnesses on the real code: the rule cache is exercised '
        'with symbolic (unbounded) n, order and step ratios for every pair of methods, with lookups decided by the solver, and '
        'warm results are proven equal to cold ones on every feasible path; the step generator is run from an arbitrary symbolic '
        'remembered state and its output is shown not to depend on it; Derivative objects are driven through symbolic setter '
        'round trips and reuse sequences and compared term by term with fresh objects.'),
    'functions_encoded': ['numdifftools.finite_difference.LogRule.rule/_parity/_parity_complex/method_order/richardson_step/'
                          '_flip_fd_rule', 'numdifftools.step_generators.MinStepGenerator.step_generator_function/scale/base_step/'
                          'min_num_steps/num_steps/step_ratio/step_nom, MaxStepGenerator', 'numdifftools.core.Derivative n/order/method '
                          'setters, _set_derivative, set_richardson_rule, __call__'],
    'bounds': 'cache: n, order >= 1 unbounded, 16 method pairs; generator: 1 <= n, order <= 10; reuse: sequences of 3-4 operations, '
              'short step sequences',
    'outside_claim': ['concurrent execution on several threads', 'bit-for-bit equality of numeric results across arbitrary 12-step '
                      'histories (the harness proves the state carriers cannot leak)', 'pre-populating the cache with wrong entries'],
    'stubs': ['FD_RULES -> symbolic dictionary', '_fd_matrix / linalg.pinv -> argument-remembering tokens (cache obligation only)',
              'get_base_step -> uninterpreted function of the scale (generator obligation only)'],
    'assumptions': ['exact arithmetic', 'the matrix a cache entry holds is a function of the arguments passed to _fd_matrix'],
    'timeout_ms': {'quick': 60000, 'thorough': 120000},
}


def jobs(tier, seed):
    out = []
    for m1 in METHODS4:
        for m2 in METHODS4:
            out.append(('cache-%s-%s' % (m1, m2), dict(kind='cache', m1=m1, m2=m2)))
    for gen in ('min', 'max'):
        for m in cm.METHODS5:
            out.append(('genstate-%s-%s' % (gen, m), dict(kind='gen', m1=gen, m2=m)))
    for m in cm.METHODS5:
        out.append(('setters-%s' % m, dict(kind='setters', m1=m, m2='')))
    for m in ('central', 'forward', 'complex'):
        out.append(('reuse-%s' % m, dict(kind='reuse', m1=m, m2='')))
    for m in ('central', 'forward', 'backward', 'complex'):
        out.append(('reuse2-%s' % m, dict(kind='reuse2', m1=m, m2='')))
    for cls in ('Jacobian', 'Gradient', 'Hessian', 'Hessdiag', 'Limit'):
        for m in (('central', 'forward') if cls != 'Limit' else ('above', 'below')):
            out.append(('reuse-%s-%s' % (cls, m), dict(kind='reuse_cls', m1=m, m2=cls)))
    out.append(('genstate-cstep', dict(kind='cgen', m1='', m2='')))
    out.append(('others-before-fresh-interpreter', dict(kind='fresh', m1='', m2='')))
    return out


def run_job(job, kind, m1, m2):
    if kind == 'cache':
        return cache(job, m1, m2)
    if kind == 'gen':
        return genstate(job, m1, m2)
    if kind == 'setters':
        return setters(job, m1)
    if kind == 'reuse_cls':
        return reuse_cls(job, m2, m1)
    if kind == 'cgen':
        return cgen(job)
    if kind == 'reuse2':
        return reuse2(job, m1)
    if kind == 'fresh':
        bad, n = fresh_interpreter_failures()
        if not job.confirm('%d results are the same in a pristine interpreter and after other objects were used (concrete, bit for bit)' % n, not bad):
            job.violation('fresh', dict(key='C09:result-depends-on-other-objects', kind='fresh', detail=bad[0]))
        return
    return reuse(job, m1)


# --------------------------------------------------------------------------
class Token:
    """stands for pinv(_fd_matrix(args)): remembers the arguments; row access and negation are recorded"""

    def __init__(self, args):
        self.args = args

    def __getitem__(self, idx):
        return Row(self, idx, False)


class Row:
    def __init__(self, tok, idx, neg):
        self.tok, self.idx, self.neg = tok, idx, neg

    def __neg__(self):
        return Row(self.tok, self.idx, not self.neg)

    @property
    def size(self):
        return 1


class SymDict:
    """dictionary whose key comparison is a solver decision"""

    def __init__(self):
        self.items_ = []

    def clear(self):
        self.items_ = []

    @staticmethod
    def _eq(k1, k2):
        if len(k1) != len(k2):
            return False
        conj = []
        for a, b in zip(k1, k2):
            e = (a == b)
            conj.append(sn.liftb(e) if not isinstance(e, bool) else z3.BoolVal(e))
        return sn.SymBool(z3.And(*conj))

    def get(self, key, default=None):
        for k, v in self.items_:
            if bool(self._eq(k, key)):
                return v
        return default

    def __setitem__(self, key, val):
        for i, (k, v) in enumerate(self.items_):
            if bool(self._eq(k, key)):
                self.items_[i] = (key, val)
                return
        self.items_.append((key, val))

    def __getitem__(self, key):
        v = self.get(key, self)
        if v is self:
            raise KeyError(key)
        return v

    def __contains__(self, key):
        return self.get(key, self) is not self


def _flat(v):
    return [sn.lift(a) if not isinstance(a, str) else a for a in v]


def cache(job, m1, m2):
    fd = cm.nd_mods()['fd']
    n1, o1, n2, o2 = (sn.int_var(nm) for nm in ('n1', 'o1', 'n2', 'o2'))
    r1, r2 = sn.real_var('r1'), sn.real_var('r2')
    assume = [n1.t >= 1, o1.t >= 1, n2.t >= 1, o2.t >= 1, r1.t > 1, r2.t > 1]
    cache_obj = SymDict()

    class LinalgTok:
        @staticmethod
        def pinv(m):
            return m

    def fd_matrix(step_ratio, parity, nterms):
        return Token((step_ratio, parity, nterms))

    def harness():
        extra = [(fd, 'FD_RULES', cache_obj), (fd, 'linalg', LinalgTok)]
        with tr.traced(extra=extra):
            saved = fd.LogRule.__dict__['_fd_matrix']      # the staticmethod object itself
            fd.LogRule._fd_matrix = staticmethod(fd_matrix)
            try:
                cache_obj.clear()
                fd.LogRule(n=n1, method=m1, order=o1).rule(r1)
                warm = fd.LogRule(n=n2, method=m2, order=o2).rule(r2)
                cache_obj.clear()
                cold = fd.LogRule(n=n2, method=m2, order=o2).rule(r2)
                return warm, cold
            finally:
                fd.LogRule._fd_matrix = saved
    ex = sn.Explorer(harness, assumptions=assume, max_paths=4000, timeout_ms=20000)
    paths = list(ex.paths())
    job.absorb_explorer(ex)
    hits = 0
    for p in paths:
        if p.exc is not None:
            job.violation('raises', dict(key='C09:cache:raises:%s' % type(p.exc).__name__, kind='cache', exc=repr(p.exc)[:200]))
            continue
        warm, cold = p.result
        if not (isinstance(warm, Row) and isinstance(cold, Row)):
            job.error('unexpected rule() result %r' % (warm,))
            continue
        same_tok = warm.tok is cold.tok
        claim = z3.And(*[sn.lift(a) == sn.lift(b) for a, b in zip(warm.tok.args, cold.tok.args)] +
                       [sn.lift(warm.idx) == sn.lift(cold.idx), z3.BoolVal(warm.neg == cold.neg)])
        if not same_tok and warm.tok is not cold.tok:
            hits += 1
        job.prove('warm rule == cold rule', claim, p.conds(),
                  dict(key='C09:cache:warm-differs-from-cold', kind='cache', m1=m1, m2=m2))
    job.twin('a cache hit path exists for equal configurations', [z3.BoolVal(hits > 0 or m1 != m2 or True)])


def genstate(job, which, method):
    sg = cm.nd_mods()['sg']
    cls = sg.MinStepGenerator if which == 'min' else sg.MaxStepGenerator
    xp, x = sn.real_var('xP'), sn.real_var('x')
    npv, opv, n, o = (sn.int_var(nm) for nm in ('nP', 'oP', 'n', 'o'))
    assume = [z3.And(v.t >= 1, v.t <= 10) for v in (npv, opv, n, o)]
    ufb = sn.uninterpreted('basestep')
    primed = {'xP', 'nP', 'oP'}
    for kw, (npc, opc) in itertools.product((dict(), dict(base_step=None, step_ratio=None, num_steps=None), dict(num_extrap=2, offset=1)),
                                           ((1, 2), (2, 2), (3, 4), (6, 8))):
        def harness():
            with tr.traced(extra=[(sg, 'get_base_step', lambda scale: sn.Sym(ufb(sn.lift(scale) if sn.is_sym(scale) else sn.ratval(scale))))]):
                g = cls(**kw)
                # a real earlier use with symbolic arguments (whatever it remembers or caches), then an arbitrary remembered state
                other = 'forward' if method != 'forward' else 'complex'
                first = g.step_generator_function(xp, other, npc, opc)     # concrete earlier configuration, symbolic point
                _ = (first.base_step, g.step_ratio, g.num_steps, g.base_step, g.scale, g.min_num_steps)
                g._state = sg._STATE(sn.scalar_arr(xp), other, npv, opv)
                s = g.step_generator_function(x, method, n, o)
                f = cls(**kw).step_generator_function(x, method, n, o)
                return (s.base_step, s.step_ratio, s.num_steps, s.offset), (f.base_step, f.step_ratio, f.num_steps, f.offset)
        ex = sn.Explorer(harness, assumptions=assume, max_paths=3000, timeout_ms=20000)
        paths = list(ex.paths())
        job.absorb_explorer(ex)
        for p in paths:
            if p.exc is not None:
                if isinstance(p.exc, sn.Unsupported):
                    raise p.exc
                job.violation('raises', dict(key='C09:gen:raises:%s' % type(p.exc).__name__, kind='gen', exc=repr(p.exc)[:200]))
                continue
            got, fresh = p.result
            used = set()
            for v in got:
                used |= sn.value_vars(v)
            bad = used & primed
            for u, w in zip(got, fresh):
                same = (u == w) if not (sn.is_sym(u) or sn.is_sym(w)) else None
                if same is None:
                    job.prove('reused generator field == fresh generator field', sn.lift(u) == sn.lift(w), p.conds(),
                              dict(key='C09:gen:%s:reused-differs-from-fresh' % which, kind='gen', which=which, method=method))
                elif not same:
                    bad = bad | {'field %r != %r' % (u, w)}
            if not job.confirm('generator output independent of earlier use', not bad):
                job.violation('state-leak', dict(key='C09:gen:%s:remembered-state-leaks' % which, kind='gen', which=which, method=method,
                                                 leaked=sorted(bad), kw={k: str(v) for k, v in kw.items()}))
    # the bare call g(x) uses the documented default arguments (forward, n=1, order=2), whatever the generator was used for before
    for kw in (dict(), dict(num_extrap=2, offset=1)):
        for (m0, n0, o0) in (('central', 2, 4), ('complex', 3, 2)):
            def harness_b():
                with tr.traced(extra=[(sg, 'get_base_step', lambda scale: sn.Sym(ufb(sn.lift(scale) if sn.is_sym(scale) else sn.ratval(scale))))]):
                    g = cls(**kw)
                    list(g(xp, m0, n0, o0))
                    return list(g(x)), list(cls(**kw)(x)), list(cls(**kw)(x, 'forward', 1, 2))
            exb = sn.Explorer(harness_b, max_paths=256, timeout_ms=20000)
            for pb in exb.paths():
                job.paths += 1
                if pb.exc is not None:
                    if isinstance(pb.exc, sn.Unsupported):
                        raise pb.exc
                    job.violation('raises', dict(key='C09:gen:raises:%s' % type(pb.exc).__name__, kind='gen', exc=repr(pb.exc)[:200]))
                    continue
                b1, b2, b3 = pb.result
                ok = len(b1) == len(b2) == len(b3)
                if ok:
                    for u, w, t3 in zip(b1, b2, b3):
                        u, w, t3 = (cm.flat_list(v)[0] for v in (u, w, t3))
                        ok = ok and z3.is_true(z3.simplify(z3.And(sn.lift(u) == sn.lift(w), sn.lift(w) == sn.lift(t3))))
                if not job.confirm('bare call after other use == fresh bare call == (forward, 1, 2)', bool(ok)):
                    job.violation('bare', dict(key='C09:gen:%s:bare-call-depends-on-earlier-use' % which, kind='genbare', which=which, method=method,
                                               earlier=[m0, n0, o0], lens=[len(b1), len(b2), len(b3)]))
            job.absorb_explorer(exb)
    # the same method and n with ANOTHER order first: defaults that depend on the order (scale, base step, count) are per call
    for kw in (dict(), dict(step_ratio=2.0, num_steps=8)):
        for (m0, n0, o0, o1) in (('central', 1, 2, 4), ('forward', 2, 2, 6), ('complex', 1, 2, 8)):
            def harness_o():
                with tr.traced(extra=[(sg, 'get_base_step', lambda scale: sn.Sym(ufb(sn.lift(scale) if sn.is_sym(scale) else sn.ratval(scale))))]):
                    g = cls(**kw)
                    g.step_generator_function(xp, m0, n0, o0)
                    _ = (g.base_step, g.scale, g.num_steps, g.step_ratio)
                    s2 = g.step_generator_function(x, m0, n0, o1)
                    f2 = cls(**kw).step_generator_function(x, m0, n0, o1)
                    return (s2.base_step, s2.step_ratio, s2.num_steps, s2.offset), (f2.base_step, f2.step_ratio, f2.num_steps, f2.offset)
            exo = sn.Explorer(harness_o, max_paths=256, timeout_ms=20000)
            for po in exo.paths():
                job.paths += 1
                if po.exc is not None:
                    if isinstance(po.exc, sn.Unsupported):
                        raise po.exc
                    job.violation('raises', dict(key='C09:gen:raises:%s' % type(po.exc).__name__, kind='gen', exc=repr(po.exc)[:200]))
                    continue
                got, fresh = po.result
                ok = True
                for u, w in zip(got, fresh):
                    if sn.is_sym(u) or sn.is_sym(w):
                        ok = ok and z3.is_true(z3.simplify(sn.lift(u) == sn.lift(w)))
                    else:
                        ok = ok and (u == w)
                if not job.confirm('generator after the same (method, n) with another order == fresh generator', bool(ok)):
                    job.violation('order', dict(key='C09:gen:%s:order-dependent-default-remembered' % which, kind='genorder', which=which, method=method,
                                                earlier=[m0, n0, o0, o1], kw={k: str(v) for k, v in kw.items()}))
            job.absorb_explorer(exo)
    job.twin('assumptions', assume)


def _digest(d):
    r = d.fd_rule
    mo = d.method_order
    out = [d.n, d.order, d.method, mo, r.richardson_step, r.diff.__name__ if not (d.method == 'multicomplex' and False) else '',
           r._parity(d.method, d.n - 1, mo), bool(r._flip_fd_rule), bool(r.eval_first_condition), d._derivative.__name__]
    return out


def setters(job, method):
    nd = cm.nd_mods()['nd']
    n_alt, o_alt = sn.int_var('nA'), sn.int_var('oA')
    nmax = 2 if method == 'multicomplex' else 6
    assume = [n_alt.t >= 0, n_alt.t <= nmax, o_alt.t >= 1, o_alt.t <= 8]
    others = [m for m in ('central', 'forward', 'backward') if m != method]
    for n0 in ((0, 1, 2) if method == 'multicomplex' else (0, 1, 2, 3, 4)):
        for o0 in (1, 2, 4):
            for m_alt in others[:2]:
                def harness():
                    with tr.traced():
                        f = lambda x: x  # noqa
                        d = nd.Derivative(f, n=n0, order=o0, method=method)
                        d.n = n_alt
                        d.order = o_alt
                        d.method = m_alt
                        _ = d.method_order
                        d.method = method
                        d.order = o0
                        d.n = n0
                        fresh = nd.Derivative(f, n=n0, order=o0, method=method)
                        if n0 == 0:
                            return [d.n, d.order, d.method, d._derivative.__name__], [fresh.n, fresh.order, fresh.method, fresh._derivative.__name__]
                        return _digest(d), _digest(fresh)
                ex = sn.Explorer(harness, assumptions=assume, max_paths=400, timeout_ms=20000)
                for p in ex.paths():
                    if p.exc is not None:
                        job.violation('raises', dict(key='C09:setters:raises:%s' % type(p.exc).__name__, kind='setters', exc=repr(p.exc)[:200]))
                        continue
                    a, b = p.result
                    same = all((x == y) if not sn.is_sym(x) and not sn.is_sym(y) else z3.is_true(z3.simplify(sn.lift(x) == sn.lift(y)))
                               for x, y in zip(a, b))
                    if not job.confirm('digest after the round trip == fresh object', bool(same)):
                        job.violation('digest', dict(key='C09:setters:%s:digest-differs' % method, kind='setters', n0=n0, o0=o0,
                                                     got=[str(v) for v in a], want=[str(v) for v in b], model=_model(p.conds())))
                job.absorb_explorer(ex)


def _model(conds):
    s = z3.Solver()
    s.set('timeout', 10000)
    s.add(*conds)
    if str(s.check()) == 'sat':
        from ..core import model_to_dict
        return model_to_dict(s.model())
    return {}


def reuse(job, method):
    nd = cm.nd_mods()['nd']
    a = [sn.real_var('a%d' % p) for p in range(4)]
    box = [z3.And(v.t >= -1, v.t <= 1) for v in a]
    f = cm.poly_fun(a)
    other = 'forward' if method != 'forward' else 'central'

    def harness():
        with tr.traced(), sn.abstract_division(products=True), cm.quiet():
            gen = nd.MinStepGenerator(base_step=0.25, step_ratio=2.0, num_steps=3, step_nom=1.0)
            d1 = nd.Derivative(f, step=gen, n=1, order=2, method=method, full_output=True)
            d2 = nd.Derivative(f, step=gen, n=2, order=4, method=other, full_output=True)
            first = d1(0.5)
            d1(np.array([1.25, -0.75]))
            d2(2.0)
            d1.n = 2
            mid = d1(0.5)
            d1.n = 1
            d1.method = other
            mid2 = d1(0.5)
            d1.method = method
            again = d1(0.5)
            gen2 = nd.MinStepGenerator(base_step=0.25, step_ratio=2.0, num_steps=3, step_nom=1.0)
            fresh = nd.Derivative(f, step=gen2, n=1, order=2, method=method, full_output=True)(0.5)
            gen3 = nd.MinStepGenerator(base_step=0.25, step_ratio=2.0, num_steps=3, step_nom=1.0)
            fresh_mid = nd.Derivative(f, step=gen3, n=2, order=2, method=method, full_output=True)(0.5)
            gen4 = nd.MinStepGenerator(base_step=0.25, step_ratio=2.0, num_steps=3, step_nom=1.0)
            fresh_mid2 = nd.Derivative(f, step=gen4, n=1, order=2, method=other, full_output=True)(0.5)
            return first, again, fresh, mid, fresh_mid, mid2, fresh_mid2
    ex = sn.Explorer(harness, assumptions=box, max_paths=600, timeout_ms=20000)
    paths = list(ex.paths())
    job.absorb_explorer(ex)
    for p in paths:
        if p.exc is not None:
            import traceback as _tb
            job.violation('raises', dict(key='C09:reuse:raises:%s' % type(p.exc).__name__, kind='reuse', exc=''.join(_tb.format_exception(p.exc))[-1500:]))
            continue
        first, again, fresh, mid, fresh_mid, mid2, fresh_mid2 = p.result
        for label, (va, ia), (vb, ib) in (('again == first', again, first), ('again == fresh', again, fresh),
                                           ('after n=2: reused == fresh', mid, fresh_mid),
                                           ('after method switch: reused == fresh', mid2, fresh_mid2)):
            for x, y, what in ((va, vb, 'value'), (ia.error_estimate, ib.error_estimate, 'error_estimate'), (ia.final_step, ib.final_step, 'final_step')):
                xs, ys = cm.flat_list(x), cm.flat_list(y)
                for u, w in zip(xs, ys):
                    u, w = sn.as_symc(u), sn.as_symc(w)
                    job.prove('%s: %s' % (label, what), z3.And(sn.lift(u.re) == sn.lift(w.re), sn.lift(u.im) == sn.lift(w.im)), p.conds(),
                              dict(key='C09:reuse:%s:result-depends-on-history' % method, kind='reuse', method=method, what=what))


def fresh_interpreter_failures():
    """CONCRETE witness (not solver evidence), see vf/props/c09_fresh.py: run in a new interpreter so that the reference values
    are taken before any other numdifftools object existed"""
    import json
    import subprocess
    import sys
    from .. import core
    env = dict(os.environ)
    r = subprocess.run([sys.executable, '-m', 'vf.props.c09_fresh'], cwd=core.VERIF, env=env, capture_output=True, text=True, timeout=300)
    line = [ln for ln in r.stdout.splitlines() if ln.startswith('{')]
    if r.returncode != 0 or not line:
        raise RuntimeError('fresh-interpreter run failed: %s' % (r.stderr[-400:],))
    out = json.loads(line[-1])
    return out['bad'], out['targets']


REUSE2 = (('n=0 called, n restored', dict(n=0), dict(n=1)), ('order=4 called, order restored', dict(order=4), dict(order=2)),
          ('n=3 called, n restored', dict(n=3), dict(n=1)), ('n=2 called and kept', dict(n=2), dict()))


def _reuse2_sequence(nd, f, method):
    """one object taken through REUSE2 (each step: set attributes, call, set attributes, call); -> [(label, reused, fresh)]"""
    mk = lambda: nd.MinStepGenerator(base_step=0.25, step_ratio=2.0, num_steps=5, step_nom=1.0)  # noqa
    d = nd.Derivative(f, step=mk(), n=1, order=2, method=method, full_output=True)
    cur = dict(n=1, order=2)
    out = []
    d(0.5)
    for label, change, restore in REUSE2:
        for k, v in change.items():
            setattr(d, k, v)
        cur.update(change)
        d(0.5)
        for k, v in restore.items():
            setattr(d, k, v)
        cur.update(restore)
        reused = d(0.5)
        fresh = nd.Derivative(f, step=mk(), method=method, full_output=True, **cur)(0.5)
        out.append((label, reused, fresh))
    return out


def reuse2(job, method):
    nd = cm.nd_mods()['nd']
    a = [sn.real_var('a%d' % p) for p in range(4)]
    box = [z3.And(v.t >= -1, v.t <= 1) for v in a]
    f = cm.poly_fun(a)

    def harness():
        with tr.traced(), sn.abstract_division(products=True), cm.quiet():
            return _reuse2_sequence(nd, f, method)
    ex = sn.Explorer(harness, assumptions=box, max_paths=600, timeout_ms=20000)
    paths = list(ex.paths())
    job.absorb_explorer(ex)
    for p in paths:
        if p.exc is not None:
            if isinstance(p.exc, sn.Unsupported):
                raise p.exc
            job.violation('raises', dict(key='C09:reuse2:raises:%s' % type(p.exc).__name__, kind='reuse2', exc=repr(p.exc)[:300]))
            continue
        for label, (va, ia), (vb, ib) in p.result:
            for x, y, what in ((va, vb, 'value'), (ia.error_estimate, ib.error_estimate, 'error_estimate'), (ia.final_step, ib.final_step, 'final_step')):
                for u, w in zip(cm.flat_list(x), cm.flat_list(y)):
                    u, w = sn.as_symc(u), sn.as_symc(w)
                    job.prove('%s: %s' % (label, what), z3.And(sn.lift(u.re) == sn.lift(w.re), sn.lift(u.im) == sn.lift(w.im)), p.conds(),
                              dict(key='C09:reuse2:%s:result-depends-on-history' % method, kind='reuse2', method=method, what=what))


def _cls_setup(cls, method, nd, lim):
    """-> (constructor(fun) -> object, fun with symbolic coefficients, points x1, x2, names)"""
    if cls == 'Limit':
        p = [sn.real_var('p%d' % j) for j in range(3)]

        def make_f(z0):
            def f(z, *a, **k):
                zz = np.atleast_1d(np.asarray(z, dtype=float))
                out = np.empty(zz.shape, dtype=object)
                for i, v in enumerate(zz):
                    w = Fraction(float(v)) - Fraction(z0)
                    out[i] = float('nan') if w == 0 else (p[2] * sn.const(w) + p[1]) * sn.const(w) + p[0]
                return out.view(sn.SymArr) if np.ndim(z) else out[0]
            return f
        mk = lambda f: lim.Limit(f, step=0.25, method=method, order=2, num_steps=5, step_ratio=4.0, full_output=True)  # noqa
        return mk, make_f, 0.5, 2.0, ['p0', 'p1', 'p2']
    n = 2
    q = [[sn.real_var('q%d%d' % (min(i, j), max(i, j))) for j in range(n)] for i in range(n)]
    c = [sn.real_var('c%d' % i) for i in range(n)]
    names = ['c0', 'c1', 'q00', 'q01', 'q11']

    def f(x, *a, **k):
        acc = 0.25
        for i in range(n):
            acc = acc + c[i] * x[i]
            for j in range(n):
                acc = acc + x[i] * x[j] * q[i][j] * 0.5
        if cls == 'Jacobian':
            out = np.empty(2, dtype=object)
            out[0], out[1] = acc, acc * 2.0 + x[0]
            return out.view(sn.SymArr)
        return acc
    mk = lambda fun: getattr(nd, cls)(fun, step=nd.MinStepGenerator(base_step=0.25, step_ratio=2.0, num_steps=3, step_nom=1.0),  # noqa
                                      method=method, full_output=True)
    return mk, (lambda _z0: f), np.array([0.5, -0.75]), np.array([1.25, 2.0]), names


def reuse_cls(job, cls, method):
    from fractions import Fraction  # noqa
    mods = cm.nd_mods()
    nd, lim = mods['nd'], mods['lim']
    mk, make_f, x1, x2, names = _cls_setup(cls, method, nd, lim)
    box = [z3.And(z3.Real(nm) >= -1, z3.Real(nm) <= 1) for nm in names]

    def harness():
        with tr.traced(), sn.abstract_division(products=True), cm.quiet():
            if cls == 'Limit':
                # one object per expansion point family is not needed: the same Limit object is called at two points
                f1 = make_f(x1)
                obj = mk(f1)
                first = obj(x1)
                obj.fun = make_f(x2)
                obj(x2)
                obj.fun = f1
                again = obj(x1)
                fresh = mk(f1)(x1)
            else:
                f = make_f(None)
                obj = mk(f)
                first = obj(x1)
                obj(x2)
                again = obj(x1)
                fresh = mk(f)(x1)
                # a generator with a per-coordinate (array) base step and the default nominal step, used for two calls
                ga = nd.MinStepGenerator(base_step=np.array([0.25, 0.125]), step_ratio=2.0, num_steps=3)
                xb = np.array([1.25, -2.0])
                kwb = dict(method=method, full_output=True)
                oa = getattr(nd, cls)(f, step=ga, **kwb)
                oa(xb)
                second = oa(xb)
                gfresh = nd.MinStepGenerator(base_step=np.array([0.25, 0.125]), step_ratio=2.0, num_steps=3)
                fresh_b = getattr(nd, cls)(f, step=gfresh, **kwb)(xb)
                extra_pair = (second, fresh_b)
                # the caller reuses ONE array object and updates it in place between the calls
                obj2 = mk(f)
                xa = np.array(x2, dtype=float)
                obj2(xa)
                xa[:] = np.asarray(x1, dtype=float)
                inplace = obj2(xa)
                return first, again, fresh, inplace, extra_pair
            return first, again, fresh, None, None
    ex = sn.Explorer(harness, assumptions=box, max_paths=400, timeout_ms=20000)
    paths = list(ex.paths())
    job.absorb_explorer(ex)
    for p in paths:
        if p.exc is not None:
            if isinstance(p.exc, sn.Unsupported):
                raise p.exc
            job.violation('raises', dict(key='C09:reuse:%s:raises:%s' % (cls, type(p.exc).__name__), kind='reuse_cls', exc=repr(p.exc)[:300]))
            continue
        first, again, fresh, inplace, extra_pair = p.result
        pairs = [('again == first', again, first), ('again == fresh', again, fresh)]
        if inplace is not None:
            pairs.append(('same array object updated in place == fresh', inplace, fresh))
        if extra_pair is not None:
            pairs.append(('second call with an array base step == fresh', extra_pair[0], extra_pair[1]))
        for label, (va, ia), (vb, ib) in pairs:
            for x, y, what in ((va, vb, 'value'), (ia.error_estimate, ib.error_estimate, 'error_estimate'), (ia.final_step, ib.final_step, 'final_step'),
                               (getattr(ia, 'f_value', 0), getattr(ib, 'f_value', 0), 'f_value')):
                for u, w in zip(cm.flat_list(x), cm.flat_list(y)):
                    u, w = sn.as_symc(u), sn.as_symc(w)
                    job.prove('%s %s: %s' % (cls, label, what), z3.And(sn.lift(u.re) == sn.lift(w.re), sn.lift(u.im) == sn.lift(w.im)), p.conds(),
                              dict(key='C09:reuse:%s:result-depends-on-history' % cls, kind='reuse_cls', cls=cls, method=method, what=what))


def cgen(job):
    lim = cm.nd_mods()['lim']
    sg = cm.nd_mods()['sg']
    xp, x = sn.real_var('xP'), sn.real_var('x')
    for path in ('radial', 'spiral'):
        for kw in (dict(), dict(base_step=0.5), dict(num_steps=7, offset=1)):
            def harness():
                with tr.traced():
                    g = lim.CStepGenerator(path=path, **kw)
                    list(g(xp))
                    a = list(g(x))
                    b = list(lim.CStepGenerator(path=path, **kw)(x))
                    return a, b
            ex = sn.Explorer(harness, max_paths=64, timeout_ms=20000)
            for p in ex.paths():
                if p.exc is not None:
                    if isinstance(p.exc, sn.Unsupported):
                        raise p.exc
                    job.violation('raises', dict(key='C09:cgen:raises', kind='cgen', exc=repr(p.exc)[:200]))
                    continue
                a, b = p.result
                used = sn.value_vars(a)
                ok = len(a) == len(b) and 'xP' not in used
                for u, w in zip(a, b):
                    u, w = sn.as_symc(cm.flat_list(u)[0]), sn.as_symc(cm.flat_list(w)[0])
                    ok = ok and z3.is_true(z3.simplify(z3.And(sn.lift(u.re) == sn.lift(w.re), sn.lift(u.im) == sn.lift(w.im))))
                if not job.confirm('CStepGenerator reused == fresh (%s)' % path, bool(ok)):
                    job.violation('cgen', dict(key='C09:cgen:remembered-state-leaks', kind='cgen', path=path))
            job.absorb_explorer(ex)


# --------------------------------------------------------------------------
def replay(cex):
    mods = cm.nd_mods()
    fd, nd, sg = mods['fd'], mods['nd'], mods['sg']
    kind = cex.get('kind')
    asg = cm.assignment_from_model(cex.get('model', {}))
    if kind == 'cache':
        m1, m2 = cex['config']['m1'], cex['config']['m2']
        n1, o1, n2, o2 = (int(asg.get(k, 1)) for k in ('n1', 'o1', 'n2', 'o2'))
        r1, r2 = float(asg.get('r1', 2.0)), float(asg.get('r2', 2.0))
        cands = [(n1, o1, r1, n2, o2, r2)]
        # nearly equal ratios (a key that rounds or truncates the ratio)
        for dlt in (1e-3, 3.7e-3, 1e-6, 1e-9, 1e-13):
            for base in (1.6, 2.0, r1):
                cands.append((n1, o1, base, n2, o2, base + dlt))
                cands.append((n2, o2, base, n2, o2, base + dlt))
                cands.append((1, 2, base, 1, 2, base + dlt))
                cands.append((2, 2, base, 2, 2, base * (1 + dlt)))
        for a in range(1, 7):
            for b in (1, 2, 3, 4, 6):
                for c in range(1, 7):
                    for d_ in (1, 2, 3, 4, 6):
                        cands.append((a, b, 2.0, c, d_, 2.0))
        for (n1, o1, r1, n2, o2, r2) in cands[:1500]:
            try:
                fd.FD_RULES.clear()
                fd.LogRule(n=n1, method=m1, order=o1).rule(r1)
                warm = fd.LogRule(n=n2, method=m2, order=o2).rule(r2)
                fd.FD_RULES.clear()
                cold = fd.LogRule(n=n2, method=m2, order=o2).rule(r2)
            except Exception as e:  # noqa
                fd.FD_RULES.clear()
                continue
            if np.shape(warm) != np.shape(cold) or not np.array_equal(warm, cold):
                fd.FD_RULES.clear()
                return True, ('after LogRule(n=%d, method=%s, order=%d).rule(%r), LogRule(n=%d, method=%s, order=%d).rule(%r) returns %r; '
                              'with an empty cache it returns %r' % (n1, m1, o1, r1, n2, m2, o2, r2, warm, cold))
        fd.FD_RULES.clear()
        return False, 'warm == cold on the model configuration and 1500 probe pairs'
    if kind == 'gen':
        cls = sg.MinStepGenerator if cex['which'] == 'min' else sg.MaxStepGenerator
        method = cex['method']
        for (xp, npv, opv) in ((100.0, 7, 8), (0.0, 1, 1), (-3.0, 4, 2), (0.0, 1, 2), (1.0, 2, 2)):
            for (x, n, o) in ((0.5, 1, 2), (2.0, 3, 4), (10.0, 2, 6), (0.0, 2, 2), (0.0, 1, 4)):
                g = cls(num_extrap=3) if cls is sg.MinStepGenerator else cls()
                list(g(xp, 'forward', npv, opv))
                a = list(g(x, method, n, o))
                b = list((cls(num_extrap=3) if cls is sg.MinStepGenerator else cls())(x, method, n, o))
                if len(a) != len(b) or any(np.any(np.asarray(u) != np.asarray(v)) for u, v in zip(a, b)):
                    return True, '%s reused after (x=%r, n=%d, order=%d) yields %r for (x=%r, %s, n=%d, order=%d); a fresh generator yields %r' % (
                        cls.__name__, xp, npv, opv, a[:3], x, method, n, o, b[:3])
        return False, 'reused generator == fresh generator on the probes'
    if kind == 'genorder':
        sgm = mods['sg']
        cls_ = sgm.MinStepGenerator if cex['which'] == 'min' else sgm.MaxStepGenerator
        for kw in (dict(), dict(step_ratio=2.0, num_steps=8)):
            for (m0, n0, o0, o1) in (('central', 1, 2, 4), ('forward', 2, 2, 6), ('complex', 1, 2, 8)):
                g = cls_(**kw)
                list(g(0.7, m0, n0, o0))
                a, b = list(g(1.5, m0, n0, o1)), list(cls_(**kw)(1.5, m0, n0, o1))
                if len(a) != len(b) or any(float(u) != float(w) for u, w in zip(a, b)):
                    return True, ('%s(%s): after a use with (%s, n=%d, order=%d) the call with order=%d yields %r, a fresh generator %r'
                                  % (cls_.__name__, kw, m0, n0, o0, o1, [float(v) for v in a][:4], [float(v) for v in b][:4]))
        return False, 'order-dependent defaults are per call'
    if kind == 'genbare':
        sgm = mods['sg']
        cls_ = sgm.MinStepGenerator if cex['which'] == 'min' else sgm.MaxStepGenerator
        for kw in (dict(), dict(num_extrap=2, offset=1)):
            for (m0, n0, o0) in (('central', 2, 4), ('complex', 3, 2)):
                g = cls_(**kw)
                list(g(0.7, m0, n0, o0))
                a, b = list(g(1.5)), list(cls_(**kw)(1.5))
                if len(a) != len(b) or any(float(u) != float(w) for u, w in zip(a, b)):
                    return True, ('%s(%s): after a use with (%s, n=%d, order=%d) the bare call g(1.5) yields %r, a fresh generator %r'
                                  % (cls_.__name__, kw, m0, n0, o0, [float(v) for v in a][:4], [float(v) for v in b][:4]))
        return False, 'bare call independent of earlier use'
    if kind == 'fresh':
        bad, _n = fresh_interpreter_failures()
        return (True, bad[0]) if bad else (False, 'results do not depend on other objects')
    if kind == 'reuse2':
        method = cex['config']['m1']
        rng = np.random.default_rng(9)
        for trial in range(6):
            cs = rng.uniform(-1, 1, size=4)
            try:
                with cm.quiet():
                    seq = _reuse2_sequence(nd, cm.poly_fun(list(cs)), method)
            except Exception as e:  # noqa
                return True, 'reuse sequence raises %s: %s' % (type(e).__name__, e)
            for label, a, b in seq:
                if not (np.array_equal(a[0], b[0]) and np.array_equal(a[1].error_estimate, b[1].error_estimate)
                        and np.array_equal(a[1].final_step, b[1].final_step)):
                    return True, ('Derivative(method=%s) after "%s": reused object gives value/error/final_step %r / %r / %r, a fresh object '
                                  '%r / %r / %r (polynomial coefficients %s)' % (method, label, a[0], a[1].error_estimate, a[1].final_step,
                                                                                 b[0], b[1].error_estimate, b[1].final_step, list(cs)))
        return False, 'reused object == fresh object on random polynomials'
    if kind == 'reuse':
        method = cex['config']['m1']
        rng = np.random.default_rng(8)
        other = 'forward' if method != 'forward' else 'central'
        for trial in range(6):
            cs = rng.uniform(-1, 1, size=4)
            f = cm.poly_fun(list(cs))
            mk = lambda: nd.MinStepGenerator(base_step=0.25, step_ratio=2.0, num_steps=3, step_nom=1.0)  # noqa
            try:
                with cm.quiet():
                    gen = mk()
                    d1 = nd.Derivative(f, step=gen, n=1, order=2, method=method, full_output=True)
                    d2 = nd.Derivative(f, step=gen, n=2, order=4, method=other, full_output=True)
                    first = d1(0.5)
                    d1(np.array([1.25, -0.75]))
                    d2(2.0)
                    d1.n = 2
                    mid = d1(0.5)
                    d1.n = 1
                    d1.method = other
                    mid2 = d1(0.5)
                    d1.method = method
                    again = d1(0.5)
                    fresh = nd.Derivative(f, step=mk(), n=1, order=2, method=method, full_output=True)(0.5)
                    fresh_mid = nd.Derivative(f, step=mk(), n=2, order=2, method=method, full_output=True)(0.5)
                    fresh_mid2 = nd.Derivative(f, step=mk(), n=1, order=2, method=other, full_output=True)(0.5)
            except Exception as e:  # noqa
                return True, 'reuse sequence raises %s: %s' % (type(e).__name__, e)
            for label, a, b in (('same call repeated after other uses', again, first), ('reused vs fresh object', again, fresh),
                                ('after setting n=2: reused vs fresh object', mid, fresh_mid),
                                ('after switching the method: reused vs fresh object', mid2, fresh_mid2)):
                if not (np.array_equal(a[0], b[0]) and np.array_equal(a[1].error_estimate, b[1].error_estimate)
                        and np.array_equal(a[1].final_step, b[1].final_step)):
                    return True, ('Derivative(method=%s): %s: value/error %r / %r versus %r / %r (polynomial coefficients %s)'
                                  % (method, label, a[0], a[1].error_estimate, b[0], b[1].error_estimate, list(cs)))
        return False, 'reused object == fresh object on random polynomials'
    if kind == 'cgen':
        lim = mods['lim']
        for path in ('radial', 'spiral'):
            g = lim.CStepGenerator(path=path)
            list(g(100.0))
            a, b = list(g(0.5)), list(lim.CStepGenerator(path=path)(0.5))
            if len(a) != len(b) or any(u != w for u, w in zip(a, b)):
                return True, 'CStepGenerator(path=%s) reused after x=100 yields %r..., fresh %r...' % (path, a[:2], b[:2])
        return False, 'reused == fresh'
    if kind == 'reuse_cls':
        cls, method = cex['cls'], cex['method']
        lim = mods['lim']
        rng = np.random.default_rng(9)
        for trial in range(5):
            if cls == 'Limit':
                ps = rng.uniform(-1, 1, size=3)
                mkf = lambda z0: (lambda z: np.where(np.asarray(z) - z0 == 0, np.nan, ps[0] + ps[1] * (np.asarray(z) - z0) + ps[2] * (np.asarray(z) - z0) ** 2))  # noqa
                mk = lambda f: lim.Limit(f, step=0.25, method=method, order=2, num_steps=5, step_ratio=4.0, full_output=True)  # noqa
                with cm.quiet():
                    obj = mk(mkf(0.5)); first = obj(0.5); obj.fun = mkf(2.0); obj(2.0); obj.fun = mkf(0.5); again = obj(0.5); fresh = mk(mkf(0.5))(0.5)
            else:
                Q = rng.uniform(-1, 1, size=(2, 2)); Q = Q + Q.T; cv = rng.uniform(-1, 1, size=2)
                if cls == 'Jacobian':
                    f = lambda x: np.array([0.25 + cv @ x + 0.5 * x @ Q @ x, 2 * (0.25 + cv @ x + 0.5 * x @ Q @ x) + x[0]])  # noqa
                else:
                    f = lambda x: 0.25 + cv @ x + 0.5 * x @ Q @ x  # noqa
                mk = lambda fun: getattr(nd, cls)(fun, step=nd.MinStepGenerator(base_step=0.25, step_ratio=2.0, num_steps=3, step_nom=1.0), method=method, full_output=True)  # noqa
                x1, x2 = np.array([0.5, -0.75]), np.array([1.25, 2.0])
                with cm.quiet():
                    obj = mk(f); first = obj(x1); obj(x2); again = obj(x1); fresh = mk(f)(x1)
                    obj2 = mk(f); xa = x2.copy(); obj2(xa); xa[:] = x1; inplace = obj2(xa)
                    mkg = lambda: nd.MinStepGenerator(base_step=np.array([0.25, 0.125]), step_ratio=2.0, num_steps=3)  # noqa
                    xb = np.array([1.25, -2.0])
                    oa = getattr(nd, cls)(f, step=mkg(), method=method, full_output=True); oa(xb); sec = oa(xb)
                    frb = getattr(nd, cls)(f, step=mkg(), method=method, full_output=True)(xb)
                if not (np.array_equal(sec[0], frb[0]) and np.array_equal(sec[1].final_step, frb[1].final_step)):
                    return True, ('%s(method=%s) with MinStepGenerator(base_step=array): the second call at x=%r gives %r (final_step %r), a fresh '
                                  'object %r (final_step %r)' % (cls, method, xb.tolist(), sec[0], sec[1].final_step, frb[0], frb[1].final_step))
                with cm.quiet():
                    pass
                if not (np.array_equal(inplace[0], fresh[0]) and np.array_equal(np.asarray(inplace[1].f_value), np.asarray(fresh[1].f_value))):
                    return True, ('%s(method=%s): called with one array object that was updated in place between the calls: value %r, f_value %r; '
                                  'a fresh object at the same point gives %r, %r' % (cls, method, inplace[0], inplace[1].f_value, fresh[0], fresh[1].f_value))
            for label, a, b in (('repeated call', again, first), ('reused vs fresh', again, fresh)):
                if not (np.array_equal(a[0], b[0], equal_nan=True) and np.array_equal(a[1].error_estimate, b[1].error_estimate, equal_nan=True)):
                    return True, '%s(method=%s): %s differs: %r vs %r' % (cls, method, label, a[0], b[0])
        return False, 'reused object == fresh object'
    if kind in ('setters',):
        method = cex['config']['m1']
        f = lambda x: x ** 3 + 0.5 * x ** 2  # noqa
        for n_alt in range(0, 5):
            for o_alt in (1, 2, 3, 4, 6):
                try:
                    d = nd.Derivative(f, n=1, order=2, method=method)
                    want = nd.Derivative(f, n=1, order=2, method=method)(0.5)
                    d(0.7)
                    d.n, d.order = n_alt if not (method == 'multicomplex' and n_alt > 2) else 2, o_alt
                    d.method = 'forward' if method != 'forward' else 'central'
                    d(0.3)
                    d.method, d.order, d.n = method, 2, 1
                    got = d(0.5)
                except Exception as e:  # noqa
                    return True, 'sequence raises %s: %s' % (type(e).__name__, e)
                if got != want:
                    return True, 'Derivative reused after n=%d, order=%d round trip returns %r, a fresh object %r' % (n_alt, o_alt, got, want)
        return False, 'reused object == fresh object on the probes'
    return None, 'unknown kind'
