"""C06 -- finite-difference rules are exact to their order and matched to Richardson.

Three layers:
 (a) Taylor structure (z3, polynomial identities, symbolic x, h, step ratio, derivative values b_p and an EXACT
     symbolic sqrt(1/2) for the complex rules): the real difference function selected by ``LogRule.diff``
     applied to f = sum_p b_p (t-x)^p/p! equals  sum_j d_j b_{k_j} h^{k_j}  with k_j = k_0 + richardson_step*j,
     k_0 = n - step*((n-1)//step)  -- no other power of h present; the real ``_fd_matrix`` run with a symbolic
     ratio has entry [i,j] = m_ij * ratio^(-i*k_j) with |m_ij - |d_j|| <= 4 eps |d_j|; the sign of the modelled
     n-th derivative column equals (-1)^_flip_fd_rule.
 (b) integer identities for ALL n, order >= 1 (CrossHair on the real classes, unbounded): parity tables, row index,
     method_order rounding, Richardson spacing, periodicity in n (so (a) for n <= 9 covers every n), eval_first.
 (c) the numbers LAPACK returned (z3, LRA): ``LogRule.diff`` + ``LogRule.apply`` on a polynomial with symbolic
     coefficients of degree n+method_order-1 at geometric steps reproduce f^(n)(x) within the backward-error
     bound for a grid of step ratios; one degree higher is visible (twin).
"""
from __future__ import annotations

import math
from fractions import Fraction

import numpy as np
import z3

from .. import symnum as sn
from .. import tracing as tr
from .. import xhair
from . import common as cm

ID = 'C06'
EPS = Fraction(1, 2 ** 52)
K_TOL = 2000
METHODS4 = ['central', 'forward', 'backward', 'complex']

META = {
    'title': 'finite-difference rules exact to order and matched to Richardson',
    'level': 'other',
    'explanation': (
        'Solver-based checking of the real LogRule: (a) every difference function reachable through LogRule.diff is '
        'executed on a polynomial with symbolic Taylor coefficients, symbolic x, h and step ratio (and exact symbolic '
        'sqrt(1/2)); z3 proves its Taylor structure is exactly the set of powers k_0+step*j that the real _fd_matrix '
        '(also executed symbolically) models, with matching coefficients and the documented sign flip; (b) CrossHair '
        'confirms over all paths, for unbounded n and order, the integer identities tying parity, row index, method_order, '
        'richardson_step and periodicity together; (c) the pinv-produced weights are applied through the real '
        'diff/apply to polynomials with symbolic coefficients and z3 (QF_LRA) proves exactness to degree '
        'n+method_order-1 within the backward-error bound over a grid of step ratios.'),
    'functions_encoded': ['numdifftools.finite_difference.LogRule.__init__/diff/_get_middle_name/_get_last_name/'
                          '_parity/_parity_complex/_flip_fd_rule/richardson_step/method_order/eval_first_condition/'
                          '_fd_matrix/rule/apply/_apply/_vstack',
                          'numdifftools.finite_difference.DifferenceFunctions._central/_central_even/_forward/_backward/'
                          '_complex/_complex_odd/_complex_odd_higher/_complex_even/_complex_even_higher',
                          'numdifftools.step_generators.MinStepGenerator.min_num_steps/num_steps/_num_step_divisor'],
    'bounds': {
        'quick': '(a) n=1..10, order 1..10; (b) unbounded n, order; (c) n=1..8, order 1..8, ratios {1.25,1.6,2,3,4,10}+1 seeded',
        'thorough': '(a) n=1..10, order 1..10; (b) unbounded; (c) n=1..10, order 1..10, ratios {1.1,1.25,1.6,2,3,4,7,10}+4 seeded',
    },
    'outside_claim': ['rounding inside the difference quotient', 'configurations whose backward-error bound exceeds '
                      '1e-3 of the derivative scale (numerically singular moment systems; counted as excluded)',
                      'exactness up to the raw `order` when order is not a multiple of the Richardson step (the library documents '
                      'the rounding to method_order; (b) proves that rounding)'],
    'stubs': ['module global np -> symbolic numpy proxy', 'scipy convolve1d -> validated reference',
              '_SQRT_J -> exact symbolic sqrt(1/2)*(1+i) with the side condition 2c^2=1 in layer (a)',
              '1/step_ratio -> uninterpreted reciprocal in layer (a)'],
    'assumptions': ['exact arithmetic; float rule weights and 1/k! constants as exact rationals',
                    'polynomial coefficients in [-1,1]'],
    'timeout_ms': {'quick': 120000, 'thorough': 300000},
}


def preflight(tier, seed):
    return {'convolve_stub_comparisons': tr.validate_convolve_stub(seed)}


def jobs(tier, seed):
    th = tier == 'thorough'
    out = [('crosshair-rules', dict(kind='xh', method='', n=0, order=0, ratio=0.0))]
    for method in METHODS4:
        for n in range(1, 11):
            for order in range(1, 11):
                out.append(('taylor-%s-n%d-o%d' % (method, n, order), dict(kind='taylor', method=method, n=n, order=order, ratio=0.0)))
    rng = np.random.default_rng(seed)
    ratios = ([1.1, 1.25, 1.6, 2.0, 3.0, 4.0, 7.0, 10.0] + [float(rng.uniform(1.05, 10)) for _ in range(4)]) if th else \
        ([1.25, 1.6, 2.0, 3.0, 4.0, 10.0] + [float(rng.uniform(1.2, 10)) for _ in range(1)])
    nmax = 10 if th else 8
    for method in METHODS4:
        for n in range(1, nmax + 1):
            for order in range(1, nmax + 1):
                for r in ratios:
                    out.append(('weights-%s-n%d-o%d-r%.4g' % (method, n, order, r),
                                dict(kind='weights', method=method, n=n, order=order, ratio=r)))
    return out


def run_job(job, kind, method, n, order, ratio):
    if kind == 'xh':
        xhair.absorb(job, 'rules_spec.py', 'C06:xh')
        return
    fd = cm.nd_mods()['fd']
    if kind == 'taylor':
        return taylor(job, fd, method, n, order)
    return weights(job, fd, method, n, order, ratio)


# --------------------------------------------------------------------------
# (a) Taylor structure
# --------------------------------------------------------------------------
def _simple_rational(v):
    """nearest rational with small denominator to a float (the exact coefficient is k!-scaled integer-ish)"""
    return Fraction(v).limit_denominator(10 ** 6)


def taylor(job, fd, method, n, order):
    rule = fd.LogRule(n=n, method=method, order=order)
    step = rule.richardson_step
    mo = rule.method_order
    nterms = (n - 1 + mo) // step
    rule_index = (n - 1) // step
    k0 = n - step * rule_index
    ks = [k0 + step * j for j in range(nterms)]
    deg = k0 + step * nterms - 1           # polynomial degree: every modelled power, nothing above
    parity = rule._parity(method, n - 1, mo)
    flip = bool(rule._flip_fd_rule)
    b = [z3.Real('b%d' % p) for p in range(deg + 1)]
    x, h, rho, c = z3.Real('x'), z3.Real('h'), z3.Real('rho'), z3.Real('c')
    side = [2 * c * c == 1, c > 0]

    def f(t):
        d = t - sn.Sym(x)
        acc = 0
        for p in range(deg, -1, -1):
            acc = acc * d + sn.Sym(b[p] * sn.ratval(Fraction(1, math.factorial(p))))
        return acc
    u = sn.uninterpreted('recip')(rho)
    extra = [(fd, '_SQRT_J', sn.SymC(sn.Sym(c), sn.Sym(c)))]

    def harness():
        with tr.traced(extra=extra), sn.abstract_division():
            M = fd.LogRule._fd_matrix(sn.Sym(rho), parity, nterms)
            fx = f(sn.Sym(x))
            D = rule.diff(f, fx, sn.Sym(x), sn.Sym(h))
            return M, D
    p = sn.run_single(harness)
    job.paths += 1
    if p.exc is not None:
        raise p.exc
    M, D = p.result
    M = np.asarray(M)
    if not job.confirm('fd_matrix-shape', M.shape == (nterms, nterms)):
        job.violation('fd_matrix-shape', dict(key='C06:fd_matrix-shape', kind='taylor', got=list(M.shape)))
        return
    Dt = sn.lift(D)
    cval = sn.ratval(Fraction(math.sqrt(0.5)))
    # coefficient of b_k h^k in D (numeric extraction with the solver's substitution, then rounded to the simple
    # rational it must be; the identity below is what is proven)
    d = []
    for k in ks:
        sub = [(bb, z3.RealVal(1 if q == k else 0)) for q, bb in enumerate(b)] + [(h, z3.RealVal(1)), (x, z3.RealVal(0)), (c, cval)]
        v = sn._const_value(z3.simplify(z3.substitute(Dt, *sub)))
        if v is None:
            job.error('difference function value is not a numeral after substitution')
            return
        d.append(_simple_rational(float(v) * math.factorial(k)) / math.factorial(k))
    model = z3.RealVal(0)
    for j, k in enumerate(ks):
        model = model + sn.ratval(d[j]) * b[k] * sn._pow_term(h, k)
    diff = z3.simplify(Dt - model, som=True)
    key = 'C06:%s:taylor-structure' % method
    info = dict(key=key, kind='taylor', ks=ks, d=[str(v) for v in d])
    job.prove('D(h) == sum_j d_j b_kj h^kj (only the modelled powers, all x)', diff == 0, side, info)
    for j, k in enumerate(ks):
        if not job.confirm('modelled power %d present' % k, d[j] != 0):
            job.violation('power-missing', dict(key='C06:%s:modelled-power-absent' % method, kind='taylor', power=k))
    # sign of the n-th derivative column vs the flip flag
    sgn = 1 if d[rule_index] > 0 else -1
    if not job.confirm('flip flag matches the sign of the n-th derivative term', (sgn == -1) == flip):
        job.violation('flip', dict(key='C06:%s:flip-sign-wrong' % method, kind='taylor', sign=sgn, flip=flip))
    # fd_matrix entries
    for i in range(nterms):
        for j, k in enumerate(ks):
            e = sn.lift(M[i, j])
            m_ij = sn._const_value(z3.simplify(z3.substitute(e, (u, z3.RealVal(1)))))
            if m_ij is None:
                job.error('fd_matrix entry is not m*u^k')
                return
            want = sn.ratval(m_ij) * sn._pow_term(u, i * k) if i * k else sn.ratval(m_ij)
            job.prove('M[%d,%d] == m * ratio^-(%d*%d)' % (i, j, i, k), z3.simplify(e - want, som=True) == 0, [],
                      dict(key='C06:%s:fd_matrix-power' % method, kind='taylor', i=i, j=j))
            ok = abs(m_ij - abs(d[j])) <= 4 * EPS * abs(d[j])
            if not job.confirm('M[%d,%d] coefficient matches |d_j|' % (i, j), ok):
                job.violation('fd_matrix-coefficient', dict(key='C06:%s:fd_matrix-coefficient' % method, kind='taylor', i=i, j=j,
                                                            got=float(m_ij), want=float(abs(d[j]))))
    # twin: a power that is not modelled really is absent -> adding b_{deg+1} changes D
    job.twin('side conditions satisfiable', side)


# --------------------------------------------------------------------------
# (c) weights through diff/apply on symbolic polynomials
# --------------------------------------------------------------------------
def weights_trace(fd, method, n, order, ratio, coefs, x0, nsteps_extra=2, h0=0.5):
    rule = fd.LogRule(n=n, method=method, order=order)
    r = float((ratio + 1.0) - 1.0)
    step = rule.richardson_step
    nterms = (n - 1 + rule.method_order) // step
    ns = nterms + nsteps_extra
    steps = h0 * (1.0 / r) ** np.arange(ns)
    f = cm.poly_fun(coefs)
    fx0 = f(x0)
    with cm.quiet():
        f_del = [rule.diff(f, fx0, x0, hh) for hh in steps]
        fder, hh, shape = rule.apply(f_del, steps, r)
        w = rule.rule(r)
    return fder, np.asarray(hh, dtype=float), float(np.sum(np.abs(w))), rule.method_order, steps


def weights(job, fd, method, n, order, ratio):
    rule = fd.LogRule(n=n, method=method, order=order)
    D = n + rule.method_order - 1
    # "numerically non-singular moment system": condition number of the documented moment matrix
    # [rho^(-i*k_j)/k_j!] (built here from the spec, not from the library) at most 1e12
    step = rule.richardson_step
    nterms = (n - 1 + rule.method_order) // step
    k0 = n - step * ((n - 1) // step)
    r_exact = float((ratio + 1.0) - 1.0)
    Mspec = np.array([[r_exact ** (-i * (k0 + step * j)) / math.factorial(k0 + step * j) for j in range(nterms)]
                      for i in range(nterms)])
    cond = float(np.linalg.cond(Mspec)) if nterms > 1 else 1.0
    if not np.isfinite(cond) or cond > 1e12:
        job.excluded += 1
        job.confirm('numerically singular configuration excluded (cond %.2g)' % cond, True)
        return
    names = ['a%d' % p for p in range(D + 1)]
    coefs = [sn.real_var(nm) for nm in names]
    box = [z3.And(z3.Real(nm) >= -1, z3.Real(nm) <= 1) for nm in names]
    x0 = 0.5

    def harness():
        with tr.traced():
            return weights_trace(fd, method, n, order, ratio, coefs, x0)
    p = sn.run_single(harness, assumptions=box)
    job.paths += 1
    if p.exc is not None:
        raise p.exc
    fder, hh, w1, mo, steps = p.result
    rows = np.asarray(fder)
    xs = Fraction(x0)
    Fb = {k: sum(Fraction(math.perm(q, k)) * abs(xs) ** (q - k) for q in range(k, D + 1)) for k in range(0, D + 1)}
    h0 = Fraction(float(np.max(steps)))
    Fnear = sum(Fraction(math.perm(q, 1)) * (abs(xs) + 2 * h0) ** (q - 1) for q in range(1, D + 1))
    oracle = sn.lift(cm.poly_deriv_at(coefs, n, xs))
    scale = max(Fb[n], Fraction(1, 10 ** 6))
    tight = 0
    taus = []
    for i in range(rows.shape[0]):
        hi = Fraction(float(hh[i, 0]))
        tau = Fraction(w1) * (K_TOL * EPS * sum(Fb[k] * hi ** (k - n) for k in range(1, D + 1)) + 8 * EPS * (abs(xs) + 2 * h0) * Fnear / hi ** n)
        taus.append(tau)
        if tau >= scale / 1000:
            job.excluded += 1
            continue
        tight += 1
        v = rows[i, 0]
        if isinstance(v, sn.SymC):
            job.error('complex entry in rule output')
            return
        dev = sn.lift(v) - oracle
        job.prove('row%d exact to degree n+method_order-1' % i, z3.And(dev <= sn.ratval(tau), -dev <= sn.ratval(tau)), box,
                  dict(key='C06:%s:rule-inexact' % method, kind='weights', row=i, names=names, tau=float(tau)))
    if tight and float(taus[0]) * 4 < 1e-6:
        # twin: one degree higher is visible in the first row
        names2 = names + ['a%d' % (D + 1)]
        coefs2 = [sn.real_var(nm) for nm in names2]
        box2 = [z3.And(z3.Real(nm) >= -1, z3.Real(nm) <= 1) for nm in names2]

        def harness2():
            with tr.traced():
                return weights_trace(fd, method, n, order, ratio, coefs2, x0)
        fder2 = np.asarray(sn.run_single(harness2, assumptions=box2).result[0])
        dev2 = sn.lift(fder2[0, 0]) - sn.lift(cm.poly_deriv_at(coefs2, n, xs))
        job.twin('degree n+method_order visible', box2 + [dev2 != 0])
    # trace validation
    rng = np.random.default_rng(abs(hash(job.name)) % 2 ** 32)
    asg = {nm: Fraction(int(rng.integers(-64, 65)), 64) for nm in names}
    fc, _h, _w, _mo, _s = weights_trace(fd, method, n, order, ratio, [float(asg[nm]) for nm in names], x0)
    for i in range(rows.shape[0]):
        sv = float(sn.evaluate(rows[i, 0], asg))
        hi = float(hh[i, 0])
        tol = 1e-9 * (1 + abs(sv)) + 1e-12 * w1 * (D + 2) * (1.5 + hi) ** D / hi ** n
        if abs(sv - float(np.real(fc[i, 0]))) > tol:
            job.error('trace validation mismatch row %d: %r vs %r' % (i, sv, fc[i, 0]))
            return
    job.validated += 1


# --------------------------------------------------------------------------
def replay(cex):
    kind = cex.get('kind')
    fd = cm.nd_mods()['fd']
    cfg = cex['config']
    if kind == 'crosshair':
        return xhair.replay_crosshair(cex)
    if kind == 'weights':
        method, n, order, ratio = cfg['method'], cfg['n'], cfg['order'], cfg['ratio']
        rule = fd.LogRule(n=n, method=method, order=order)
        D = n + rule.method_order - 1
        asg = cm.assignment_from_model(cex.get('model', {}))
        cands = [[float(asg.get('a%d' % p, 0)) for p in range(D + 1)], [1.0] * (D + 1), [(-1.0) ** p for p in range(D + 1)]]
        for cs in cands:
            try:
                fder, hh, w1, mo, steps = weights_trace(fd, method, n, order, ratio, cs, 0.5)
            except Exception as e:  # noqa
                return True, 'LogRule.apply raises %s: %s' % (type(e).__name__, e)
            want = float(cm.poly_deriv_at(cs, n, 0.5))
            i = cex.get('row', 0)
            tol = max(100 * cex.get('tau', 1e-9), 1e-9)
            got = float(np.real(np.asarray(fder)[i, 0]))
            if abs(got - want) > tol:
                return True, ('LogRule(n=%d, method=%s, order=%d).apply at step_ratio=%r on the polynomial with coefficients %s: '
                              'row %d = %r, exact derivative %r' % (n, method, order, ratio, cs, i, got, want))
        return False, 'rule exact on the candidate polynomials'
    if kind == 'taylor':
        # numeric demonstration: moment system built from the real _fd_matrix is inconsistent with the real diff on monomials
        method, n, order = cfg['method'], cfg['n'], cfg['order']
        rule = fd.LogRule(n=n, method=method, order=order)
        D = n + rule.method_order - 1
        for ratio in (2.0, 1.6):
            for cs in ([1.0] * (D + 1), [(-1.0) ** p * (p + 1) / (D + 1) for p in range(D + 1)]):
                fder, hh, w1, mo, steps = weights_trace(fd, method, n, order, ratio, cs, 0.5)
                want = float(cm.poly_deriv_at(cs, n, 0.5))
                got = float(np.real(np.asarray(fder)[0, 0]))
                if abs(got - want) > 1e-6 * (1 + abs(want)) * max(1.0, w1 * 1e-6):
                    return True, ('LogRule(n=%d, method=%s, order=%d): rule applied to a degree-%d polynomial gives %r, exact %r '
                                  '(Taylor structure of the difference function and the moment matrix disagree: %s)'
                                  % (n, method, order, D, got, want, cex.get('obligation')))
        return False, 'rule still exact numerically (structure deviation not visible)'
    return None, 'unknown kind'
