"""C05 -- the user function is only evaluated where the chosen method promises.

The real ``__call__`` of Derivative / Gradient / Jacobian / Hessdiag / Hessian is run
with a symbolic point ``x`` (and, in the user-step modes, a symbolic base step
``h0 > 0``).  The user function records every argument it receives (terms in x, h0
and, for the default generators, the uninterpreted ``log`` of the nominal-step
formula) and returns constants, so the rest of the pipeline runs concretely.  The
solver then decides, for every recorded argument and all x / h0:

  forward   : every coordinate >= x           backward : <= x
  central   : the argument is x or its mirror image 2x - p was evaluated too
  complex (n=1, order<4) and multicomplex: real part == x exactly
  distance  : |p_j - x_j| (and every imaginary component) <= W * largest step_j
  support   : at most one (Gradient/Jacobian/Hessdiag) / two (Hessian) coordinates move
  steps     : every generated step is > 0 (real generators)
"""
from __future__ import annotations

import itertools
from fractions import Fraction

import numpy as np
import z3

from .. import symnum as sn
from .. import tracing as tr
from . import common as cm

ID = 'C05'

META = {
    'title': 'evaluation points are admissible',
    'level': 'other',
    'explanation': (
        'Solver-based bounded checking of the real code: the real __call__ of the five derivative classes is executed '
        'symbolically (tracing executor over z3 terms, numpy object arrays) with symbolic x and symbolic base step; '
        'every argument handed to the user function is recorded as a term and the admissibility conditions '
        '(one-sidedness, mirror pairs, exact real part, distance, support) are discharged by z3 (QF_UFLRA) for all x, '
        'all h0>0 and every value of the uninterpreted log() in the nominal-step formula. unsat = holds for every '
        'value within the configuration bounds; sat models are replayed against the unmodified library with floats.'),
    'functions_encoded': [
        'numdifftools.core.Derivative.__call__/_derivative_nonzero_order/_get_steps/_eval_first',
        'numdifftools.core.Jacobian._derivative_nonzero_order/_expand_steps', 'numdifftools.core.Gradient.__call__',
        'numdifftools.core.Hessdiag.__call__', 'numdifftools.core.Hessian.__init__',
        'numdifftools.finite_difference.DifferenceFunctions.*', 'JacobianDifferenceFunctions.*',
        'HessdiagDifferenceFunctions.*', 'HessianDifferenceFunctions.*', 'LogRule.diff (name dispatch)',
        'LogRule.apply/_vstack (executed, result unused)',
        'numdifftools.step_generators.MinStepGenerator/MaxStepGenerator/Basic*StepGenerator.__call__',
        'numdifftools.multicomplex.Bicomplex.__init__'],
    'bounds': {
        'quick': 'Derivative: 5 methods, n<=4 (complex n<=6, multicomplex n<=2), order 1..4, x scalar and shape (2,); '
                 'Gradient/Jacobian: 5 methods, orders 2,4, dim 1..3 (Jacobian m=2); Hessdiag: 6 methods, orders 2,4, '
                 'dim 1..3; Hessian: 6 methods, dim 1..3; step modes: default generator, symbolic scalar step',
        'thorough': 'as quick with n<=6, order 1..8, plus Min/Max generators with non-default ratio/offset/num_steps '
                    'and use_exact_steps off, x of shape (2,2) for Derivative',
    },
    'outside_claim': ['IEEE rounding of x+h (decided separately for the primitive shapes in the float64 lemma of this check)',
                      'dimension > 3', 'n > 6, order > 8'],
    'stubs': ['module global np -> symbolic numpy proxy (allocation widening to object dtype)',
              'instance attribute _extrapolate replaced by a constant-returning stub: no user-function calls happen '
              'after the difference stage (checked: the recorded call count equals the count of the concrete run)',
              'np.log of a symbolic value -> uninterpreted function'],
    'assumptions': ['exact real arithmetic for the recorded argument terms (float64 one-sidedness is the separate FP lemma)',
                    'h0 > 0 for user supplied base steps'],
    'timeout_ms': {'quick': 60000, 'thorough': 120000},
}

CLASSES = ('Derivative', 'Gradient', 'Jacobian', 'Hessdiag', 'Hessian')

WIDTH = {('Hessian', 'central'): 2, ('Hessian', 'central2'): 2, ('Hessian', 'forward'): 2,
         ('Hessian', 'backward'): 2, ('Hessdiag', 'central2'): 2}


def methods_for(cls):
    if cls in ('Hessdiag', 'Hessian'):
        return ['central', 'central2', 'forward', 'backward', 'complex', 'multicomplex']
    return cm.METHODS5


def jobs(tier, seed):
    out = []
    thorough = tier == 'thorough'
    nmax = {'central': 6, 'forward': 6, 'backward': 6, 'complex': 6, 'multicomplex': 2} if thorough else \
        {'central': 4, 'forward': 4, 'backward': 4, 'complex': 6, 'multicomplex': 2}
    orders = range(1, 9) if thorough else range(1, 5)
    stepmodes = ['default', 'scalar'] + (['min_opts', 'max_opts', 'max_noexact'] if thorough else [])
    shapes = [(), (2,)] + ([(2, 2)] if thorough else [])
    for method in cm.METHODS5:
        for n in range(1, nmax[method] + 1):
            for order in orders:
                for shape in shapes:
                    for sm in stepmodes:
                        out.append(('D-%s-n%d-o%d-%s-%s' % (method, n, order, 'x'.join(map(str, shape)) or 's', sm),
                                    dict(cls='Derivative', method=method, n=n, order=order, shape=list(shape),
                                         stepmode=sm)))
    for cls in ('Gradient', 'Jacobian', 'Hessdiag'):
        for method in methods_for(cls):
            for order in ((2, 4, 6) if thorough else (2, 4)):
                for dim in (1, 2, 3):
                    for sm in stepmodes:
                        out.append(('%s-%s-o%d-d%d-%s' % (cls[0] + cls[4], method, order, dim, sm),
                                    dict(cls=cls, method=method, n=1 if cls != 'Hessdiag' else 2, order=order,
                                         shape=[dim], stepmode=sm)))
    for method in methods_for('Hessian'):
        for dim in (1, 2, 3):
            for sm in stepmodes:
                out.append(('Hs-%s-d%d-%s' % (method, dim, sm),
                            dict(cls='Hessian', method=method, n=2, order=None, shape=[dim], stepmode=sm)))
    # the promise is about the method the object has NOW: objects whose method was switched after a first call
    for cls in ('Derivative', 'Jacobian'):
        for prev, method in (('forward', 'backward'), ('backward', 'forward'), ('central', 'forward'), ('forward', 'central'),
                             ('central', 'complex')):
            for n in ((1, 2, 3) if cls == 'Derivative' else (1,)):
                out.append(('%s-switched-%s-to-%s-n%d' % (cls[0], prev, method, n),
                            dict(cls=cls, method=method, n=n, order=2, shape=[] if cls == 'Derivative' else [2], stepmode='default', prev=prev)))
    for method in ('forward', 'central', 'complex'):
        out.append(('nested-%s' % method, dict(cls='Nested', method=method, n=1, order=2, shape=[3], stepmode='scalar')))
    out.append(('FP-lemmas', dict(cls='FP', method='', n=0, order=0, shape=[], stepmode=tier)))
    return out


# --------------------------------------------------------------------------
def _nested_records(nd, method, h_out, h_in, xvals):
    """Jacobian of (the Gradient of f): the inner Gradient is called while the outer difference function is suspended at one
    of its evaluation points.  -> list of (base point the inner object was called at, inner evaluation point)"""
    core = cm.nd_mods()['core']
    mc = cm.nd_mods()['mc']
    rec = []
    cur = [None]
    info = core._Limit.info

    def fake_extrapolate(results, steps, shp):
        z = np.zeros(shp)
        return z, info(z, z, np.zeros(shp, dtype=int))

    def f(p):
        if isinstance(p, mc.Bicomplex):
            raise sn.Unsupported('nested job does not use multicomplex')
        rec.append((cur[0], np.array(p, copy=True)))
        return 0.0

    inner = nd.Gradient(f, step=h_in, method=method)
    inner._extrapolate = fake_extrapolate

    def g(x):
        cur[0] = np.array(x, copy=True)
        return inner(x)
    outer = nd.Jacobian(g, step=h_out, method='forward')
    outer._extrapolate = fake_extrapolate
    with cm.quiet():
        outer(xvals)
    return rec


def nested(job, method):
    """re-entrant use: every evaluation of the INNER object moves exactly one coordinate of the point the inner object was
    called at, by one of the inner steps (shared work buffers of the difference functions would leak the outer perturbation)"""
    nd = cm.nd_mods()['nd']
    h_out, h_in = sn.real_var('h_out'), sn.real_var('h_in')
    x = np.array([0.5, -0.75, 1.25])
    pre = [h_out.t > 0, h_in.t > 0, h_out.t != h_in.t]

    def harness():
        with tr.traced():
            return _nested_records(nd, method, h_out, h_in, x)
    p = sn.run_single(harness, assumptions=pre)
    job.paths += 1
    if p.exc is not None:
        if isinstance(p.exc, sn.Unsupported):
            raise p.exc
        job.violation('raises', dict(key='C05:nested:%s:raises' % method, kind='nested', exc=repr(p.exc)[:200]))
        return
    rec = p.result
    job.confirm('inner evaluations recorded', len(rec) > 3)
    for base, pt in rec:
        bl, pl = cm.flat_list(base), cm.flat_list(pt)
        moved = []
        for j in range(len(bl)):
            a, b = sn.as_symc(pl[j]), sn.as_symc(bl[j])
            dr = z3.simplify(sn.lift(a.re) - sn.lift(b.re))
            di = z3.simplify(sn.lift(a.im) - sn.lift(b.im))
            if not (z3.is_rational_value(dr) and dr.as_fraction() == 0 and z3.is_rational_value(di) and di.as_fraction() == 0):
                moved.append((j, dr, di))
        ok = len(moved) <= 1
        if ok and moved:
            j, dr, di = moved[0]
            # the displacement is a multiple of the inner step only (no trace of the outer step)
            used = sn.term_vars(dr) | sn.term_vars(di)
            ok = 'h_out' not in used
        if not job.confirm('inner evaluation moves one coordinate by an inner step', ok):
            job.violation('nested', dict(key='C05:nested:%s:inner-evaluation-moves-several-coordinates' % method, kind='nested', method=method,
                                         moved=[int(j) for j, _a, _b in moved]))
            return


def _step_arg(stepmode, h0, nd):
    """the ``step`` argument / step options for a mode; h0 symbolic or float"""
    if stepmode == 'default':
        return None, {}
    if stepmode == 'scalar':
        return h0, {}
    if stepmode == 'min_opts':
        return nd.MinStepGenerator(base_step=h0, step_ratio=3.0, num_steps=None, step_nom=1.0, offset=1,
                                   num_extrap=2), {}
    if stepmode == 'max_opts':
        return nd.MaxStepGenerator(base_step=h0, step_ratio=2.5, num_steps=9, step_nom=1.0, offset=-1), {}
    if stepmode == 'max_noexact':
        return nd.MaxStepGenerator(base_step=h0, step_ratio=1.7, num_steps=11, step_nom=None, offset=0,
                                   use_exact_steps=True), {}
    raise ValueError(stepmode)


def _const_like(p, cls, mc, m_out=2):
    """constant return value of the recording user function with the right type/shape"""
    Bicomplex = mc.Bicomplex
    if isinstance(p, Bicomplex):
        if cls == 'Derivative':
            shp = p.z1.shape
            return Bicomplex(np.ones(shp), np.zeros(shp))
        if cls == 'Jacobian':
            return Bicomplex(np.ones(m_out), np.zeros(m_out))
        return Bicomplex(1.0, 0.0)
    is_c = sn._iscomplexobj(p) if isinstance(p, np.ndarray) else isinstance(p, (sn.SymC, complex))
    one = (1.0 + 0j) if is_c else 1.0
    if cls == 'Derivative':
        shp = np.shape(p) if isinstance(p, np.ndarray) else ()
        return np.full(shp, one) if shp else one
    if cls == 'Jacobian':
        return np.full(m_out, one)
    return one


def _components(p, mc):
    """-> dict of flat lists: re, im1, im2, im12 (python numbers or Sym)"""
    if isinstance(p, mc.Bicomplex):
        z1 = cm.flat_list(p.z1)
        z2 = cm.flat_list(p.z2)
        return dict(re=[sn._el_real(v) for v in z1], im1=[sn._el_imag(v) for v in z1],
                    im2=[sn._el_real(v) for v in z2], im12=[sn._el_imag(v) for v in z2])
    vals = cm.flat_list(p)
    return dict(re=[sn._el_real(v) for v in vals], im1=[sn._el_imag(v) for v in vals], im2=None, im12=None)


def run_trace(cfg, xvals, h0, symbolic):
    """Run the real __call__; returns (list of component dicts, steps list, x flat list, ncalls).
    symbolic=True: inside traced() with Sym inputs; else plain library with floats."""
    mods = cm.nd_mods()
    nd, mc, core = mods['nd'], mods['mc'], mods['core']
    cls = cfg['cls']
    shape = tuple(cfg['shape'])
    rec = []

    def f(p, *a, **k):
        if isinstance(p, np.ndarray):
            p = p.copy()
        elif isinstance(p, mc.Bicomplex):
            p = mc.Bicomplex(p.z1.copy(), p.z2.copy()) if not symbolic else _copy_bc(p, mc)
        rec.append(p)
        return _const_like(p, cls, mc)

    step, opts = _step_arg(cfg['stepmode'], h0, nd)
    # prev: the object was built and called once with another method; the method attribute is then switched (public setter)
    kw = dict(method=cfg.get('prev') or cfg['method'], step=step)
    if cls == 'Derivative':
        kw.update(n=cfg['n'], order=cfg['order'])
    elif cls != 'Hessian':
        kw.update(order=cfg['order'])
    d = getattr(nd, cls)(f, **kw)
    if shape == ():
        x = xvals[0]
    else:
        x = np.empty(shape, dtype=object if symbolic else float)
        for i, idx in enumerate(np.ndindex(shape)):
            x[idx] = xvals[i]
        if symbolic:
            x = x.view(sn.SymArr)
    info = core._Limit.info

    def fake_extrapolate(results, steps, shp):
        z = np.zeros(shp)
        return z, info(z, z, np.zeros(shp, dtype=int))

    d._extrapolate = fake_extrapolate
    with cm.quiet():
        if cfg.get('prev'):
            d(x)
            del rec[:]
            d.method = cfg['method']
        d(x)
        ncalls = len(rec)
        x_i = np.atleast_1d(x).ravel() if cls == 'Gradient' else (np.atleast_1d(x) if cls != 'Derivative' else np.asarray(x))
        if symbolic and not isinstance(x_i, sn.SymArr):
            x_i = sn.SymArr(x_i)
        steps, _ratio = d._get_steps(x_i)
    comps = [_components(p, mc) for p in rec[:ncalls]]
    return comps, [cm.flat_list(s) for s in steps], cm.flat_list(x_i), ncalls


def _copy_bc(p, mc):
    b = mc.Bicomplex.__new__(mc.Bicomplex)
    b.z1 = np.asarray(p.z1).copy()
    b.z2 = np.asarray(p.z2).copy()
    return b


def _t(v):
    """z3 term of a recorded component"""
    return sn.lift(v)


def run_job(job, cls, method, n, order, shape, stepmode, prev=None):
    if cls == 'FP':
        return fp_lemmas(job, stepmode)
    if cls == 'Nested':
        return nested(job, method)
    cfg = dict(cls=cls, method=method, n=n, order=order, shape=shape, stepmode=stepmode, prev=prev)
    size = int(np.prod(shape)) if shape else 1
    xs = [sn.real_var('x%d' % i) for i in range(size)]
    h0 = sn.real_var('h0')
    assumptions = [h0.t > 0]

    def harness():
        with tr.traced():
            return run_trace(cfg, xs, h0, True)

    ex = sn.Explorer(harness, assumptions=assumptions, max_paths=40, timeout_ms=20000, catch=(Exception,))
    paths = list(ex.paths())
    job.absorb_explorer(ex)
    if not paths:
        job.error('no feasible path')
        return
    W = WIDTH.get((cls, method), 1)
    one_coord = cls in ('Gradient', 'Jacobian', 'Hessdiag')
    for path in paths:
        if path.exc is not None:
            # library raised on a feasible path for a valid configuration
            job.violation('raises', dict(key='C05:%s:%s:raises:%s' % (cls, method, type(path.exc).__name__),
                                         kind='raises', exc=repr(path.exc)[:300],
                                         model=_model_for(path.conds())))
            continue
        comps, steps, xflat, ncalls = path.result
        conds = path.conds()
        xt = [_t(v) for v in xflat]
        d = len(xt)
        # --- generated steps are positive; largest step per coordinate
        hs = []
        for s in steps:
            s = s if len(s) == d else s * d
            hs.append([_t(v) for v in s])
        if not hs:
            job.error('no steps generated')
            continue
        pos = z3.And(*[h > 0 for s in hs for h in s])
        job.prove('steps-positive', pos, conds, dict(key='C05:%s:%s:step-not-positive' % (cls, method), kind='steps'))
        hmax = [cm.zmax([cm.zabs(s[j]) for s in hs]) for j in range(d)]
        n_args = len(comps)
        job.notes.append('%s: %d recorded calls' % (job.name, n_args)) if False else None
        all_re = [[_t(v) for v in c['re']] for c in comps]
        for ai, c in enumerate(comps):
            re = all_re[ai]
            if len(re) != d:
                job.error('recorded argument has %d components, x has %d' % (len(re), d))
                continue
            im_lists = [c[k] for k in ('im1', 'im2', 'im12') if c[k] is not None]
            ims = [[_t(v) for v in lst] for lst in im_lists]
            tag = 'arg%d' % ai
            info = dict(kind='arg', arg_index=ai)
            # side
            if method == 'forward':
                job.prove(tag + '-forward', z3.And(*[re[j] >= xt[j] for j in range(d)]), conds,
                          dict(info, key='C05:%s:%s:below-x' % (cls, method)))
            elif method == 'backward':
                job.prove(tag + '-backward', z3.And(*[re[j] <= xt[j] for j in range(d)]), conds,
                          dict(info, key='C05:%s:%s:above-x' % (cls, method)))
            elif method in ('central', 'central2'):
                mirror = []
                trivially = False
                for bj, other in enumerate(all_re):
                    eq = z3.And(*[re[j] + other[j] == 2 * xt[j] for j in range(d)])
                    seq = z3.simplify(eq)
                    if z3.is_true(seq):
                        trivially = True
                        break
                    if not z3.is_false(seq):
                        mirror.append(eq)
                if trivially:
                    job.confirm(tag + '-mirror', True)
                else:
                    job.prove(tag + '-mirror', z3.Or(*mirror) if mirror else z3.BoolVal(False), conds,
                              dict(info, key='C05:%s:%s:unpaired' % (cls, method)))
            if method == 'multicomplex' or (method == 'complex' and cls in ('Derivative', 'Gradient', 'Jacobian')
                                            and n == 1 and _complex_default_first(cfg)):
                job.prove(tag + '-realpart', z3.And(*[re[j] == xt[j] for j in range(d)]), conds,
                          dict(info, key='C05:%s:%s:real-part-moved' % (cls, method)))
            # real methods never receive complex arguments
            if method in ('central', 'central2', 'forward', 'backward') and ims:
                job.prove(tag + '-no-imag', z3.And(*[v == 0 for lst in ims for v in lst]), conds,
                          dict(info, key='C05:%s:%s:imag-perturbed' % (cls, method)))
            # distance
            dist = [cm.zabs(re[j] - xt[j]) <= W * hmax[j] for j in range(d)]
            for lst in ims:
                dist += [cm.zabs(lst[j]) <= W * hmax[j] for j in range(d)]
            job.prove(tag + '-distance', z3.And(*dist), conds, dict(info, key='C05:%s:%s:too-far' % (cls, method)))
            # support
            if cls != 'Derivative':
                moved = []
                for j in range(d):
                    m = [re[j] != xt[j]] + [lst[j] != 0 for lst in ims]
                    moved.append(z3.Or(*m))
                k = 1 if one_coord else 2
                job.prove(tag + '-support', z3.AtMost(*moved, k) if d > k else z3.BoolVal(True), conds,
                          dict(info, key='C05:%s:%s:too-many-coordinates' % (cls, method)))
        # vacuity twin: path condition satisfiable and some argument really differs from x
        if comps:
            diff = z3.Or(*[all_re[a][j] != xt[j] for a in range(n_args) for j in range(d)] +
                         [_t(v) != 0 for c in comps for k_ in ('im1', 'im2', 'im12') if c[k_] is not None for v in c[k_]])
            job.twin('some-argument-moves', conds + [diff])
        # trace validation: symbolic arguments evaluated at a random point == concrete run of the untouched library
        _validate(job, cfg, comps, steps, xs, h0, ncalls)


def _complex_default_first(cfg):
    # the default first-derivative complex rule (x + 1j*h): first derivative with a requested order below 4 -- restated from
    # the documentation ("n > 1 or order >= 4" selects the high-order complex rules), NOT read off the library's method_order
    return (cfg['order'] or 2) < 4


def _model_for(conds):
    s = z3.Solver()
    s.set('timeout', 10000)
    s.add(*conds)
    if str(s.check()) == 'sat':
        from ..core import model_to_dict
        return model_to_dict(s.model())
    return {}


def _validate(job, cfg, comps, steps, xs, h0, ncalls):
    import math
    rng = np.random.default_rng(abs(hash(job.name)) % (2 ** 32))
    size = len(xs)
    xv = [Fraction(int(rng.integers(-300, 300)), 64) for _ in range(size)]
    hv = Fraction(int(rng.integers(1, 64)), 256)
    asg = {'x%d' % i: xv[i] for i in range(size)}
    asg['h0'] = hv
    ccomps, csteps, cx, cn = run_trace(cfg, [float(v) for v in xv], float(hv), False)
    if cn != ncalls:
        job.error('trace validation: %d symbolic calls vs %d concrete calls' % (ncalls, cn))
        return
    ufs = {'uf_log': math.log}
    for a, (sc, cc) in enumerate(zip(comps, ccomps)):
        for k in ('re', 'im1', 'im2', 'im12'):
            if sc[k] is None:
                continue
            for sv, cv in zip(sc[k], cc[k]):
                val = py_eval(sn.lift(sv), asg, ufs)
                if abs(val - float(np.real(cv))) > 1e-9 * (1 + abs(val)):
                    job.error('trace validation mismatch at arg %d %s: %r vs %r' % (a, k, val, cv))
                    return
    job.validated += 1


def py_eval(t, asg, ufs):
    """numeric evaluation of a z3 term (floats) -- used only to validate traces"""
    cache = {}

    def ev(e):
        i = e.get_id()
        if i in cache:
            return cache[i]
        r = _ev(e)
        cache[i] = r
        return r

    def _ev(e):
        if z3.is_rational_value(e) or z3.is_int_value(e):
            return float(Fraction(e.numerator_as_long(), e.denominator_as_long())) if z3.is_rational_value(e) \
                else float(e.as_long())
        if z3.is_true(e):
            return True
        if z3.is_false(e):
            return False
        k = e.decl().kind()
        ch = e.children()
        if k == z3.Z3_OP_UNINTERPRETED:
            if not ch:
                return float(asg[str(e)])
            return ufs[e.decl().name()](*[ev(c) for c in ch])
        if k == z3.Z3_OP_ADD:
            return sum(ev(c) for c in ch)
        if k == z3.Z3_OP_MUL:
            r = 1.0
            for c in ch:
                r *= ev(c)
            return r
        if k == z3.Z3_OP_SUB:
            r = ev(ch[0])
            for c in ch[1:]:
                r -= ev(c)
            return r
        if k == z3.Z3_OP_UMINUS:
            return -ev(ch[0])
        if k == z3.Z3_OP_DIV:
            return ev(ch[0]) / ev(ch[1])
        if k == z3.Z3_OP_ITE:
            return ev(ch[1]) if ev(ch[0]) else ev(ch[2])
        if k == z3.Z3_OP_LE:
            return ev(ch[0]) <= ev(ch[1])
        if k == z3.Z3_OP_LT:
            return ev(ch[0]) < ev(ch[1])
        if k == z3.Z3_OP_GE:
            return ev(ch[0]) >= ev(ch[1])
        if k == z3.Z3_OP_GT:
            return ev(ch[0]) > ev(ch[1])
        if k == z3.Z3_OP_EQ:
            return ev(ch[0]) == ev(ch[1])
        if k == z3.Z3_OP_NOT:
            return not ev(ch[0])
        if k == z3.Z3_OP_AND:
            return all(ev(c) for c in ch)
        if k == z3.Z3_OP_OR:
            return any(ev(c) for c in ch)
        if k == z3.Z3_OP_TO_REAL:
            return ev(ch[0])
        if k == z3.Z3_OP_POWER:
            return ev(ch[0]) ** ev(ch[1])
        raise sn.Unsupported('py_eval: operator %s' % e.decl())
    return ev(t)


# --------------------------------------------------------------------------
# float64 lemmas for the primitive argument shapes
# --------------------------------------------------------------------------
def fp_lemmas(job, tier):
    F = z3.Float64()
    RM = z3.RNE()
    x, h, g = z3.FPs('x h g', F)

    def fin(v):
        return z3.And(z3.Not(z3.fpIsNaN(v)), z3.Not(z3.fpIsInf(v)))

    two = z3.FPVal(2.0, F)
    zero = z3.FPVal(0.0, F)
    base = [fin(x), fin(h), fin(g), z3.fpGT(h, zero), z3.fpGT(g, zero)]
    xph = z3.fpAdd(RM, x, h)
    xmh = z3.fpSub(RM, x, h)
    x2h = z3.fpAdd(RM, x, z3.fpMul(RM, two, h))
    xm2h = z3.fpSub(RM, x, z3.fpMul(RM, two, h))
    xhg = z3.fpAdd(RM, z3.fpAdd(RM, x, h), g)
    xmhg = z3.fpSub(RM, z3.fpSub(RM, x, h), g)
    nn = lambda v: z3.Or(z3.fpIsInf(v), z3.Not(z3.fpIsNaN(v)))  # noqa
    t = 120000 if tier == 'quick' else 600000
    job.prove('fp64: x+h >= x', z3.fpGEQ(xph, x), base, dict(key='C05:FP:x+h'), timeout_ms=t, presimplify=False)
    job.prove('fp64: x-h <= x', z3.fpLEQ(xmh, x), base, dict(key='C05:FP:x-h'), timeout_ms=t, presimplify=False)
    job.prove('fp64: x+2h >= x', z3.Or(z3.fpGEQ(x2h, x), z3.fpIsNaN(x2h)), base, dict(key='C05:FP:x+2h'),
              timeout_ms=t, presimplify=False)
    job.prove('fp64: x-2h <= x', z3.Or(z3.fpLEQ(xm2h, x), z3.fpIsNaN(xm2h)), base, dict(key='C05:FP:x-2h'),
              timeout_ms=t, presimplify=False)
    job.prove('fp64: (x+h)+g >= x', z3.fpGEQ(xhg, x), base, dict(key='C05:FP:x+h+g'), timeout_ms=t,
              presimplify=False)
    job.prove('fp64: (x-h)-g <= x', z3.fpLEQ(xmhg, x), base, dict(key='C05:FP:x-h-g'), timeout_ms=t,
              presimplify=False)
    # real part of x + 1j*h : numpy computes complex(x,0) + complex(0*h - 1*0, 0*0 + 1*h)
    re = z3.fpAdd(RM, x, z3.fpSub(RM, z3.fpMul(RM, zero, h), z3.fpMul(RM, z3.FPVal(1.0, F), zero)))
    job.prove('fp64: Re(x+1j*h) == x', z3.fpEQ(re, x), [fin(x), fin(h)], dict(key='C05:FP:re'), timeout_ms=t,
              presimplify=False)
    job.twin('fp64 twin: x+h > x reachable', base + [z3.fpGT(xph, x)], timeout_ms=t)


# --------------------------------------------------------------------------
# replay on the untouched library
# --------------------------------------------------------------------------
def concrete_violations(cfg, xv, hv):
    """run the real library with floats and evaluate the property on the recorded arguments"""
    comps, steps, xflat, ncalls = run_trace(cfg, xv, hv, False)
    cls, method = cfg['cls'], cfg['method']
    d = len(xflat)
    W = WIDTH.get((cls, method), 1)
    steps = [s if len(s) == d else s * d for s in steps]
    bad = []
    if any(not (float(np.real(h)) > 0) for s in steps for h in s):
        bad.append('non-positive step')
    hmax = [max(abs(s[j]) for s in steps) for j in range(d)]
    res = [[float(np.real(v)) for v in c['re']] for c in comps]
    for a, c in enumerate(comps):
        re = res[a]
        ims = [[float(np.real(v)) for v in c[k]] for k in ('im1', 'im2', 'im12') if c[k] is not None]
        if method == 'forward' and any(re[j] < xflat[j] for j in range(d)):
            bad.append('arg %d below x' % a)
        if method == 'backward' and any(re[j] > xflat[j] for j in range(d)):
            bad.append('arg %d above x' % a)
        if method in ('central', 'central2'):
            ok = any(all(abs(re[j] + o[j] - 2 * xflat[j]) <= 4e-16 * (abs(re[j]) + abs(o[j]) + abs(xflat[j])) for j in range(d))
                     for o in res)
            if not ok:
                bad.append('arg %d has no mirror image' % a)
        if method == 'multicomplex' or (method == 'complex' and cls in ('Derivative', 'Gradient', 'Jacobian')
                                        and cfg['n'] == 1 and _complex_default_first(cfg)):
            if any(re[j] != xflat[j] for j in range(d)):
                bad.append('arg %d real part moved' % a)
        if method in ('central', 'central2', 'forward', 'backward') and any(v != 0 for lst in ims for v in lst):
            bad.append('arg %d complex perturbation under a real method' % a)
        tol = 1 + 1e-12
        if any(abs(re[j] - xflat[j]) > W * hmax[j] * tol + 4e-16 * abs(xflat[j]) for j in range(d)) or \
                any(abs(lst[j]) > W * hmax[j] * tol for lst in ims for j in range(d)):
            bad.append('arg %d too far from x' % a)
        if cls != 'Derivative':
            moved = sum(1 for j in range(d) if re[j] != xflat[j] or any(lst[j] != 0 for lst in ims))
            if moved > (1 if cls in ('Gradient', 'Jacobian', 'Hessdiag') else 2):
                bad.append('arg %d moves %d coordinates' % (a, moved))
    return bad


def replay(cex):
    cfg = cex['config']
    if cfg['cls'] == 'FP':
        return None, 'floating-point lemma counterexample (no library call to replay): %s' % cex.get('obligation')
    if cfg['cls'] == 'Nested':
        nd = cm.nd_mods()['nd']
        x = np.array([0.5, -0.75, 1.25])
        rec = _nested_records(nd, cfg['method'], 0.5, 2.0 ** -10, x)
        for base, pt in rec:
            d = np.asarray(pt) - np.asarray(base)
            nz = np.flatnonzero(d != 0)
            if len(nz) > 1 or (len(nz) == 1 and abs(d[nz[0]]) > 2.0 ** -9):
                return True, ('Jacobian(Gradient(f, step=2**-10, method=%s), step=0.5): the inner Gradient, called at %r, evaluates f at %r '
                              '(displacement %r)' % (cfg['method'], np.asarray(base).tolist(), np.asarray(pt).tolist(), d.tolist()))
        return False, 'inner evaluations move one coordinate by an inner step'
    asg = cm.assignment_from_model(cex.get('model', {}))
    size = int(np.prod(cfg['shape'])) if cfg['shape'] else 1
    xv = [float(asg.get('x%d' % i, Fraction(1, 2))) for i in range(size)]
    hv = float(asg.get('h0', Fraction(1, 8)))
    if hv <= 0:
        hv = 0.125
    try:
        bad = concrete_violations(cfg, xv, hv)
    except Exception as e:  # noqa
        if cex.get('kind') == 'raises':
            return True, 'real library raises %s: %s at x=%s' % (type(e).__name__, e, xv)
        return None, 'replay raised %s: %s' % (type(e).__name__, e)
    if bad:
        return True, '%s %s at x=%s h0=%s: %s' % (cfg['cls'], cfg['method'], xv, hv, '; '.join(bad[:4]))
    return False, 'no inadmissible evaluation at x=%s h0=%s' % (xv, hv)
