"""C09 helper run in a FRESH interpreter (python -m vf.props.c09_fresh): does a result depend on which OTHER objects were
created or called before?  Concrete floats, compared bit for bit; printed as one JSON line.

The in-process C09 jobs compare a reused object with a fresh object, but both live in a worker process whose module-level state
may already have been touched by earlier jobs; state shared between different objects (class attributes, module caches) is only
visible when the reference value is taken in a pristine interpreter, before anything else has run."""
import json
import os
import sys
import warnings

sys.path.insert(0, os.environ.get('VERIF_REPO_SRC', '/repo/src'))
warnings.simplefilter('ignore')

import numpy as np  # noqa: E402
import numdifftools as nd  # noqa: E402
from numdifftools import extrapolation as ex  # noqa: E402
from numdifftools import finite_difference as fd  # noqa: E402
from numdifftools import limits as lim  # noqa: E402


def targets():
    yield 'Derivative(exp)(1.0)', lambda: nd.Derivative(np.exp, full_output=True)(1.0)
    yield 'Derivative(sin, n=2, order=4)(0.7)', lambda: nd.Derivative(np.sin, n=2, order=4, full_output=True)(0.7)
    yield "Derivative(tanh, method='forward', order=3)(0.3)", lambda: nd.Derivative(np.tanh, method='forward', order=3, full_output=True)(0.3)
    yield "Derivative(exp, method='complex', n=3)(0.5)", lambda: nd.Derivative(np.exp, method='complex', n=3, full_output=True)(0.5)
    yield "Derivative(exp, method='forward', order=2)(0.3)", lambda: nd.Derivative(np.exp, method='forward', order=2, full_output=True)(0.3)
    yield "Derivative(cos, method='backward', order=2)(0.3)", lambda: nd.Derivative(np.cos, method='backward', order=2, full_output=True)(0.3)
    yield 'Derivative(sin, order=4)(0.4)', lambda: nd.Derivative(np.sin, order=4, full_output=True)(0.4)
    yield 'Gradient(sum x^3)([1, 2])', lambda: nd.Gradient(lambda x: np.sum(x ** 3), full_output=True)([1.0, 2.0])
    yield 'Hessian(x0 exp(x1))([0.5, 0.25])', lambda: nd.Hessian(lambda x: x[0] * np.exp(x[1]), full_output=True)([0.5, 0.25])
    yield 'Limit(sin z / z)(0)', lambda: lim.Limit(lambda z: np.sin(z) / z, full_output=True)(0.0)


def pollute():
    """other objects, other configurations, short and long step sequences, direct use of the helper classes"""
    short = nd.MinStepGenerator(num_steps=2)
    nd.Derivative(np.sin, step=short)(0.3)
    nd.Derivative(np.cos, step=nd.MinStepGenerator(num_steps=1, check_num_steps=False), order=2)(0.3)
    for method in ('central', 'forward', 'backward', 'complex', 'multicomplex'):
        for n in (1, 2):
            nd.Derivative(np.cos, method=method, n=n, order=2)(0.9)
            nd.Derivative(np.cos, method=method, n=n, order=2, step=nd.MaxStepGenerator(num_steps=3))(np.array([0.1, 2.5]))
    nd.Derivative(np.exp, n=4, order=6)(0.2)
    nd.Jacobian(lambda x: np.array([x[0] * x[1], x[1] ** 2]), method='forward')([1.5, -2.0])
    nd.Hessian(lambda x: np.sum(x ** 4), method='central2')([0.3, 0.4, 0.5])
    nd.Hessdiag(lambda x: np.sum(np.exp(x)), order=4)([0.1, 0.2])
    lim.Limit(lambda z: (np.exp(z) - 1) / z, path='spiral')(0.0)
    lim.Residue(lambda z: 1 / np.expm1(z), pole_order=1)(0.0)
    for num_terms in (0, 1, 2, 3):
        for step in (1, 2, 4):
            r = ex.Richardson(step_ratio=2.0, step=step, order=step, num_terms=num_terms)
            for length in (1, 2, 3, 9):
                seq = (1.0 + 0.5 ** (step * np.arange(length)))[:, None]
                r(seq, 0.5 ** np.arange(length)[:, None])
    ex.dea3(1.0, 1.5, 1.75)
    d = ex.Dea(5)
    for v in (1.0, 1.5, 1.75, 1.875):
        d(v)
    rule = fd.LogRule(n=1, method='central', order=2)
    rule.rule(2.0)
    rule.n = 3
    rule.rule(1.6)


def same(a, b):
    (va, ia), (vb, ib) = a, b
    ok = np.array_equal(np.asarray(va), np.asarray(vb), equal_nan=True)
    for fld in ('error_estimate', 'final_step', 'index'):
        ok = ok and np.array_equal(np.asarray(getattr(ia, fld)), np.asarray(getattr(ib, fld)), equal_nan=True)
    return bool(ok)


def main():
    ref = [(name, mk()) for name, mk in targets()]
    bad = []
    for stage in ('other objects had been used', 'the rule cache FD_RULES had been cleared', 'other objects had refilled the cleared cache'):
        if stage.startswith('the rule cache'):
            fd.FD_RULES.clear()
        else:
            pollute()
        for (name, r), (_n, mk) in zip(ref, targets()):
            again = mk()
            if not same(r, again):
                bad.append('%s: value/error/final_step %r / %r / %r in a pristine interpreter, %r / %r / %r after %s'
                           % (name, np.ravel(r[0])[:2].tolist(), np.ravel(r[1].error_estimate)[:2].tolist(), np.ravel(r[1].final_step)[:2].tolist(),
                              np.ravel(again[0])[:2].tolist(), np.ravel(again[1].error_estimate)[:2].tolist(),
                              np.ravel(again[1].final_step)[:2].tolist(), stage))
    print(json.dumps({'bad': bad, 'targets': len(ref)}))
    return
    for (name, r), (_n, mk) in zip(ref, targets()):
        again = mk()
        if not same(r, again):
            bad.append('%s: value/error/final_step %r / %r / %r in a pristine interpreter, %r / %r / %r after other objects had been used'
                       % (name, np.ravel(r[0])[:2].tolist(), np.ravel(r[1].error_estimate)[:2].tolist(), np.ravel(r[1].final_step)[:2].tolist(),
                          np.ravel(again[0])[:2].tolist(), np.ravel(again[1].error_estimate)[:2].tolist(),
                          np.ravel(again[1].final_step)[:2].tolist()))
    print(json.dumps({'bad': bad, 'targets': len(ref)}))


if __name__ == '__main__':
    main()
