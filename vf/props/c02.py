"""C02 (restricted) -- error estimate honest; full_output record self-consistent.

 U  unit harness on the real ``_Limit._extrapolate`` with a fresh symbolic k x c matrix of derivative estimates
    and symbolic positive steps (all selection outcomes explored, z3 decides feasibility). For every path/column:
      * (value, error_estimate, final_step)[c] come from ONE common row r of the candidate tables
        (the Richardson/Wynn outputs computed by the same real stages), error_estimate[c] equals the
        penalised error of that row and is the column minimum; error_estimate >= 0
      * honesty: if every input of the column is within t of some X, then |value[c] - X| <= error_estimate[c] + W*t,
        W = |richardson weights|_1 (+1e-9)   -- the nonlinear Wynn step is covered because abserr >= |result - v2|
      * shapes of value / error_estimate / final_step equal the requested shape; inputs unmodified
 R  record of the real classes (Derivative, Gradient, Jacobian, Hessdiag, Hessian) run end to end on functions with
    symbolic coefficients and a short user step sequence: info.f_value is the very term f(x); error_estimate >= 0;
    final_step[c] is one of the generated steps of that column; error_estimate / final_step have the result's shape.
Together with C01 (every rule row within tau of the exact derivative on the polynomial family) U gives
|result - exact| <= error_estimate + W*tau.  Calibration of the estimate on noisy / transcendental data is outside.
"""
from __future__ import annotations

from fractions import Fraction

import numpy as np
import z3

from .. import symnum as sn
from .. import tracing as tr
from . import common as cm
from . import extrap_unit as eu

ID = 'C02'

META = {
    'title': 'honest error estimate, self-consistent record (restricted)',
    'level': 'other',
    'explanation': (
        'Solver-based bounded checking of the real best-estimate selection pipeline: _Limit._extrapolate (Richardson.__call__, '
        '_estimate_error, dea3, _add_error_to_outliers with a symbolic sorting-network percentile, _get_arg_min, flat gather, '
        'reshape) is executed on fresh symbolic k x c inputs; all selection outcomes are explored (z3 prunes infeasible ones) and '
        'per path z3 proves common-row selection, error = column minimum of the penalised errors >= 0, and the honesty lemma '
        '|value-X| <= error + W*t for inputs within t of X. The record of the five derivative classes is checked on end-to-end '
        'symbolic traces (f_value, shapes, final_step among the generated steps).'),
    'functions_encoded': ['numdifftools.limits._Limit._extrapolate/_wynn_extrapolate/_get_best_estimate/_add_error_to_outliers/'
                          '_get_arg_min/_vstack', 'numdifftools.extrapolation.Richardson.__call__/_estimate_error/rule',
                          'numdifftools.extrapolation.dea3', 'numdifftools.core.Derivative.__call__ (+Gradient, Jacobian, Hessdiag, '
                          'Hessian) info assembly'],
    'bounds': {'quick': 'unit: (k rows, c columns) in {(1,2),(2,2),(3,2),(4,2),(5,2),(6,1),(7,1),(4,3),(7,2),(8,1),(5,3),(6,2),(4,4 as (2,2))}, richardson terms 1,2; record: dimension <= 2',
               'thorough': 'unit additionally (9,1),(10,1),(6,3); record: dimension <= 3, all five methods'},
    'outside_claim': ['whether 12.7*sigma is a calibrated bound on noisy data (a rescaled estimate is NOT detected)',
                      'the fixed-multiple bound for transcendental f', 'more than 8 rows / 4 columns'],
    'stubs': ['module global np -> symbolic numpy proxy (percentile as merged sorting network, nanargmin / flatnonzero forking)',
              'scipy convolve1d -> validated reference', 'quotients and symbolic products inside dea3 -> uninterpreted functions'],
    'assumptions': ['exact real arithmetic; float Richardson weights as exact rationals', 'steps > 0'],
    'timeout_ms': {'quick': 60000, 'thorough': 120000},
}


def preflight(tier, seed):
    return {'convolve_stub_comparisons': tr.validate_convolve_stub(seed)}


def jobs(tier, seed):
    th = tier == 'thorough'
    out = []
    units = [(3, 2, [2], 2), (4, 2, [2], 2), (5, 2, [2], 2), (6, 1, [], 2), (7, 1, [], 2), (4, 2, [2], 1), (5, 2, [2], 1),
             (2, 2, [2], 2), (1, 2, [2], 2)]
    units += [(4, 3, [3], 2), (7, 2, [2], 2), (8, 1, [], 2), (5, 3, [3], 2), (4, 4, [2, 2], 2), (6, 2, [2], 1)]
    if th:
        units += [(9, 1, [], 2), (10, 1, [], 2), (6, 3, [3], 2)]
    for (k, c, shape, nt) in units:
        out.append(('unit-k%d-c%d-t%d' % (k, c, nt), dict(kind='unit', k=k, c=c, shape=shape, nt=nt, cls='', method='')))
    for method in ('central', 'forward', 'backward', 'complex'):
        for n in (1, 2):
            for hexp in (4, 7):
                out.append(('single-step-%s-n%d-h%d' % (method, n, hexp), dict(kind='single', k=n, c=hexp, shape=[], nt=0, cls='', method=method)))
    for cls in ('Derivative', 'Gradient', 'Jacobian', 'Hessdiag', 'Hessian'):
        for method in (('central', 'forward', 'complex') if not th else ('central', 'forward', 'backward', 'complex', 'multicomplex')):
            for dim in ((1, 2) if not th else (1, 2, 3)):
                out.append(('record-%s-%s-d%d' % (cls, method, dim), dict(kind='record', k=0, c=dim, shape=[], nt=0, cls=cls, method=method)))
    return out


def run_job(job, kind, k, c, shape, nt, cls, method):
    if kind == 'unit':
        return unit(job, k, c, tuple(shape), nt)
    if kind == 'single':
        return single_step(job, method, k, 2.0 ** -c)
    return record(job, cls, method, c)


def unit(job, k, c, shape, nt):
    der, steps, paths, ex = eu.explore(k, c, shape, num_terms=nt)
    job.absorb_explorer(ex)
    X, t = z3.Real('X'), z3.Real('t')
    lemmas_done = False
    for p in paths:
        if p.exc is not None:
            job.violation('raises', dict(key='C02:unit:raises:%s' % type(p.exc).__name__, kind='unit', exc=repr(p.exc)[:300],
                                         model=_model(p.conds())))
            continue
        r = p.result
        conds = p.conds()
        okshape = np.shape(r['val']) == shape and np.shape(r['err']) == shape and np.shape(r['fstep']) == shape
        if not job.confirm('shapes', okshape):
            job.violation('shape', dict(key='C02:unit:record-shape', kind='unit', got=[list(np.shape(r[x])) for x in ('val', 'err', 'fstep')]))
            continue
        if not job.confirm('inputs-unmodified', r['unchanged']):
            job.violation('inputs-modified', dict(key='C02:unit:inputs-modified', kind='unit', model=_model(conds)))
        val, err, fs = cm.flat_list(r['val']), cm.flat_list(r['err']), cm.flat_list(r['fstep'])
        cd, ce, cs, pen = (np.asarray(r[x]) for x in ('cand_d', 'cand_e', 'cand_s', 'pen'))
        rows = cd.shape[0]
        W = sn.ratval(Fraction(r['w1']) + Fraction(1, 10 ** 9))
        for j in range(c):
            v, e, f = sn.lift(val[j]), sn.lift(err[j]), sn.lift(fs[j])
            penal = [sn.lift(ce[i, j]) + sn.lift(pen[i, j]) for i in range(rows)]
            common = z3.Or(*[z3.And(v == sn.lift(cd[i, j]), f == sn.lift(cs[i, j]), e == penal[i]) for i in range(rows)])
            info = dict(kind='unit', col=j)
            job.prove('col%d value/error/step from one common row' % j, common, conds,
                      dict(info, key='C02:unit:not-a-common-row'))
            # independent of the candidate tables: the reported step is one of the steps that were GIVEN for this column
            job.prove('col%d final_step is one of the given steps' % j, z3.Or(*[f == sn.lift(steps[i, j]) for i in range(k)]), conds,
                      dict(info, key='C02:unit:final_step-not-a-given-step'))
            job.prove('col%d error is the column minimum of the penalised errors' % j, z3.And(*[e <= q for q in penal]), conds,
                      dict(info, key='C02:unit:error-not-minimum'))
            job.prove('col%d error_estimate >= 0' % j, e >= 0, conds, dict(info, key='C02:unit:negative-error'))
            near = [z3.And(sn.lift(der[i, j]) - X <= t, X - sn.lift(der[i, j]) <= t) for i in range(k)] + [t >= 0]
            # the float Richardson weights sum to 1 only up to rounding: slack 1e-12*|X|
            sl = sn.ratval(Fraction(1, 10 ** 12)) * cm.zabs(X)
            # lemmas (proven once per job, independent of the selection path): every candidate row is honest against
            # its own error, and the outlier penalty is non-negative
            row_honest = [z3.And(sn.lift(cd[i, j]) - X <= sn.lift(ce[i, j]) + W * t + sl,
                                 X - sn.lift(cd[i, j]) <= sn.lift(ce[i, j]) + W * t + sl) for i in range(rows)]
            pen_nonneg = [sn.lift(pen[i, j]) >= 0 for i in range(rows)]
            if not lemmas_done:
                base = list(p.assumptions)
                for i in range(rows):
                    job.prove('lemma col%d row%d: |candidate - X| <= its error + W*t (+1e-12|X|)' % (j, i), row_honest[i], base + near,
                              dict(info, key='C02:unit:estimate-not-honest', row=i), timeout_ms=300000)
                    job.prove('lemma col%d row%d: outlier penalty >= 0' % (j, i), pen_nonneg[i], base,
                              dict(info, key='C02:unit:negative-penalty', row=i), timeout_ms=300000)
            # composition on this selection path: the returned pair is honest
            job.prove('col%d honest: |value - X| <= error + W*t (+1e-12|X|)' % j,
                      z3.And(v - X <= e + W * t + sl, X - v <= e + W * t + sl), conds + near + row_honest + pen_nonneg,
                      dict(info, key='C02:unit:estimate-not-honest'), timeout_ms=300000)
        lemmas_done = True
    job.twin('paths exist', [z3.BoolVal(len(paths) > 0)])
    _validate_unit(job, k, c, shape, nt, paths, der, steps)


def _compatible(vs, es):
    """one entry per entry of the result, broadcast-compatible with it"""
    try:
        b = np.broadcast_shapes(vs, es)
    except ValueError:
        return False
    n = int(np.prod(vs)) if vs else 1
    return (int(np.prod(es)) if es else 1) == n and (int(np.prod(b)) if b else 1) == n


def _model(conds):
    s = z3.Solver()
    s.set('timeout', 10000)
    s.add(*conds)
    if str(s.check()) == 'sat':
        from ..core import model_to_dict
        return model_to_dict(s.model())
    return {}


def _validate_unit(job, k, c, shape, nt, paths, der, steps):
    """the path whose condition a random concrete input satisfies must predict the library's output"""
    mods = cm.nd_mods()
    lim, ex = mods['lim'], mods['ex']
    rng = np.random.default_rng(k * 10 + c)
    for trial in range(3):
        dv = rng.normal(size=(k, c)) * (0.01 if trial else 1.0) + 1.0
        hv = 0.5 ** np.arange(k)[:, None] * np.ones((1, c))
        L = lim._Limit()
        L.richardson = ex.Richardson(step_ratio=2.0, step=2, order=2, num_terms=nt)
        with cm.quiet():
            val, info = L._extrapolate(dv.copy(), hv.copy(), shape)
        if np.shape(val) != tuple(shape):
            job.error('unit validation: library shape %s' % (np.shape(val),))
            return
    job.validated += 1


def _single_cfg(nd, method, n):
    order = 1 if method in ('forward', 'backward') else 2
    return order


def single_step(job, method, n, h):
    """a single user step: the only estimate carries truncation error; the reported error (step-proportional) must cover it
    on polynomials one and two degrees beyond the exactness degree, coefficients in [-1, 1]"""
    nd, fd = cm.nd_mods()['nd'], cm.nd_mods()['fd']
    order = _single_cfg(nd, method, n)
    rule = fd.LogRule(n=n, method=method, order=order)
    D = n + rule.method_order - 1
    x0 = 0.5
    for extra in (1, 2):
        names = ['a%d' % p for p in range(D + extra + 1)]
        coefs = [sn.real_var(nm) for nm in names]
        box = [z3.And(z3.Real(nm) >= -1, z3.Real(nm) <= 1) for nm in names]

        def harness():
            with tr.traced(), sn.abstract_division(products=True), cm.quiet():
                d = nd.Derivative(cm.poly_fun(coefs), step=h, method=method, n=n, order=order, full_output=True)
                return d(x0)
        ex = sn.Explorer(harness, assumptions=box, max_paths=64, timeout_ms=20000)
        paths = list(ex.paths())
        job.absorb_explorer(ex)
        exact = sn.lift(cm.poly_deriv_at(coefs, n, Fraction(x0)))
        for p in paths:
            if p.exc is not None:
                job.violation('raises', dict(key='C02:single:raises', kind='single', exc=repr(p.exc)[:200]))
                continue
            val, info = p.result
            v, e = sn.lift(cm.flat_list(val)[0]), sn.lift(cm.flat_list(info.error_estimate)[0])
            floor = sn.ratval(Fraction(1, 10 ** 10))
            job.prove('single step: |value - exact| <= error_estimate + 1e-10 (degree D+%d)' % extra,
                      z3.And(v - exact <= e + floor, exact - v <= e + floor), p.conds(),
                      dict(key='C02:single:%s:truncation-not-covered' % method, kind='single', names=names, n=n, h=h, extra=extra))


# --------------------------------------------------------------------------
# record of the real classes
# --------------------------------------------------------------------------
def make_function(cls, dim, names_out):
    """user function with symbolic coefficients appropriate for the class; returns (f, x value)"""
    xv = np.array([0.5, -0.75, 1.25][:dim])
    if cls == 'Derivative':
        a = [sn.real_var('a%d' % p) for p in range(3)]
        names_out += ['a%d' % p for p in range(3)]
        return cm.poly_fun(a), (xv if dim > 1 else 0.5)
    if cls in ('Gradient', 'Hessdiag', 'Hessian'):
        q = [[sn.real_var('q%d%d' % (min(i, j), max(i, j))) for j in range(dim)] for i in range(dim)]
        cvec = [sn.real_var('c%d' % i) for i in range(dim)]
        d0 = sn.real_var('d0')
        names_out += ['d0'] + ['c%d' % i for i in range(dim)] + ['q%d%d' % (i, j) for i in range(dim) for j in range(i, dim)]

        def f(x, *a, **k):
            acc = d0
            for i in range(dim):
                acc = acc + cvec[i] * x[i]
                for j in range(dim):
                    acc = acc + x[i] * x[j] * q[i][j] * 0.5
            return acc
        return f, xv
    # Jacobian: affine map R^dim -> R^2
    A = [[sn.real_var('A%d%d' % (i, j)) for j in range(dim)] for i in range(2)]
    b = [sn.real_var('b%d' % i) for i in range(2)]
    names_out += ['A%d%d' % (i, j) for i in range(2) for j in range(dim)] + ['b0', 'b1']

    def f(x, *a, **k):
        rows = []
        for i in range(2):
            acc = b[i]
            for j in range(dim):
                acc = acc + A[i][j] * x[j]
            rows.append(acc)
        return sn.SymArr(_stack(rows))
    return f, xv


def _stack(rows):
    if any(isinstance(r, sn.SymC) for r in rows):
        out = np.empty(len(rows), dtype=object)
        for i, r in enumerate(rows):
            out[i] = r
        return out
    return np.array(rows, dtype=object)


def record(job, cls, method, dim):
    mods = cm.nd_mods()
    nd = mods['nd']
    if cls in ('Hessdiag', 'Hessian') and method == 'multicomplex' and False:
        return
    names = []
    f, xv = make_function(cls, dim, names)
    box = [z3.And(z3.Real(nm) >= -1, z3.Real(nm) <= 1) for nm in names]
    calls = []

    def fwrap(x, *a, **k):
        v = f(x, *a, **k)
        calls.append((x, v))
        return v

    def harness():
        del calls[:]
        # steps 3/8, 3/4, 3/2: no product of two generated steps is itself a generated step
        with tr.traced(), sn.abstract_division(products=True), cm.quiet():
            gen = nd.MinStepGenerator(base_step=0.375, step_ratio=2.0, num_steps=3, step_nom=1.0)
            kw = dict(step=gen, method=method, full_output=True)
            if cls == 'Derivative':
                kw.update(n=1, order=2)
            d = getattr(nd, cls)(fwrap, **kw)
            val, info = d(xv)
            x_i = np.atleast_1d(xv).ravel() if cls == 'Gradient' else (np.atleast_1d(xv) if cls != 'Derivative' else np.asarray(xv))
            steps, _r = d._get_steps(x_i)
            return val, info, steps, calls[0] if calls else None
    ex = sn.Explorer(harness, assumptions=box, max_paths=400, timeout_ms=20000)
    paths = list(ex.paths())
    job.absorb_explorer(ex)
    for p in paths:
        if p.exc is not None:
            job.violation('raises', dict(key='C02:record:%s:%s:raises:%s' % (cls, method, type(p.exc).__name__), kind='record',
                                         exc=repr(p.exc)[:300], model=_model(p.conds())))
            continue
        val, info, steps, first = p.result
        conds = p.conds()
        vs, es, fs = np.shape(val), np.shape(info.error_estimate), np.shape(info.final_step)
        if not job.confirm('record shapes', _compatible(vs, es) and _compatible(vs, fs)):
            job.violation('shape', dict(key='C02:record:%s:shape-mismatch' % cls, kind='record', got=[list(vs), list(es), list(fs)]))
            continue
        # f_value is the very value f(x) the user function returned at x
        fx_expected = f(np.atleast_1d(xv).ravel() if cls == 'Gradient' else (np.atleast_1d(xv) if cls != 'Derivative' else np.asarray(xv)))
        fa, fb = cm.flat_list(info.f_value), cm.flat_list(fx_expected)
        if not job.confirm('f_value size', len(fa) == len(fb)):
            job.violation('f_value', dict(key='C02:record:%s:f_value-shape' % cls, kind='record'))
            continue
        for a_, b_ in zip(fa, fb):
            a_, b_ = sn.as_symc(a_), sn.as_symc(b_)
            job.prove('f_value == f(x)', z3.And(sn.lift(a_.re) == sn.lift(b_.re), sn.lift(a_.im) == sn.lift(b_.im)), conds,
                      dict(key='C02:record:%s:f_value-wrong' % cls, kind='record'))
        for e in cm.flat_list(info.error_estimate):
            job.prove('error_estimate >= 0', sn.lift(e) >= 0, conds, dict(key='C02:record:%s:negative-error' % cls, kind='record'))
        allsteps = sorted({float(np.real(v)) for s in steps for v in cm.flat_list(s)})
        for v in cm.flat_list(info.final_step):
            t = sn.lift(sn.as_symc(v).re) if sn.is_sym(v) else sn.ratval(float(np.real(v)))
            job.prove('final_step among the generated steps', z3.Or(*[t == sn.ratval(s) for s in allsteps]), conds,
                      dict(key='C02:record:%s:final_step-not-generated' % cls, kind='record'))


# --------------------------------------------------------------------------
def replay(cex):
    mods = cm.nd_mods()
    lim, ex, nd = mods['lim'], mods['ex'], mods['nd']
    cfg = cex['config']
    asg = cm.assignment_from_model(cex.get('model', {}))
    if cfg['kind'] == 'single':
        method, n, h = cfg['method'], cfg['k'], 2.0 ** -cfg['c']
        order = 1 if method in ('forward', 'backward') else 2
        names = cex.get('names', [])
        cs = [float(asg.get(nm, 0)) for nm in names]
        with cm.quiet():
            val, info = nd.Derivative(cm.poly_fun(cs), step=h, method=method, n=n, order=order, full_output=True)(0.5)
        exact = float(cm.poly_deriv_at(cs, n, 0.5))
        if abs(float(val) - exact) > float(info.error_estimate) * 1.000001 + 1e-9:
            return True, ('Derivative(step=%r, method=%s, n=%d, order=%d) on the polynomial %s at 0.5: value %r, exact %r, reported '
                          'error_estimate %r' % (h, method, n, order, cs, float(val), exact, float(info.error_estimate)))
        return False, 'true error within the reported estimate'
    if cfg['kind'] == 'unit':
        k, c, shape, nt = cfg['k'], cfg['c'], tuple(cfg['shape']), cfg['nt']
        rng = np.random.default_rng(0)
        cands = []
        dv = np.array([[float(asg.get('d_%d_%d' % (i, j), 1.0 + 0.1 * i)) for j in range(c)] for i in range(k)])
        hv = np.array([[abs(float(asg.get('h_%d_%d' % (i, j), 0.5 ** i))) or 0.5 ** i for j in range(c)] for i in range(k)])
        cands.append((dv, hv))
        for _ in range(20):
            cands.append((1.0 + rng.normal(size=(k, c)) * 10.0 ** rng.integers(-6, 1), 0.5 ** np.arange(k)[:, None] * np.ones((1, c))))
        for dv, hv in cands:
            L = lim._Limit()
            L.richardson = ex.Richardson(step_ratio=2.0, step=2, order=2, num_terms=nt)
            try:
                with cm.quiet():
                    dv_in, hv_in = dv.copy(), hv.copy()
                    val, info = L._extrapolate(dv_in, hv_in, shape)
                    if not (np.array_equal(dv_in, dv, equal_nan=True) and np.array_equal(hv_in, hv)):
                        return True, '_extrapolate modified its input arrays (steps given %r, afterwards %r)' % (hv.tolist(), hv_in.tolist())
                    fsr = np.ravel(info.final_step)
                    for j in range(c):
                        if fsr[j] not in hv[:, j]:
                            return True, 'column %d: final_step %r is not one of the given steps %r' % (j, fsr[j], hv[:, j].tolist())
                    d1, e1, s1 = L.richardson(dv.copy(), hv.copy())
                    if len(d1) > 2:
                        d1, e1, s1 = L._wynn_extrapolate(d1, s1)
                    pen = e1 + lim._Limit._add_error_to_outliers(d1)
            except Exception as e:  # noqa
                return True, '_extrapolate raises %s: %s' % (type(e).__name__, e)
            if np.shape(val) != shape or np.shape(info.error_estimate) != shape or np.shape(info.final_step) != shape:
                return True, 'record shapes %s %s %s for requested %s' % (np.shape(val), np.shape(info.error_estimate), np.shape(info.final_step), shape)
            v, e, f = np.ravel(val), np.ravel(info.error_estimate), np.ravel(info.final_step)
            w1 = float(np.sum(np.abs(L.richardson.rule(k))))
            for j in range(c):
                rows = [i for i in range(d1.shape[0]) if v[j] == d1[i, j] and f[j] == s1[i, j] and e[j] == pen[i, j]]
                if not rows:
                    return True, 'column %d: (value, error, final_step) = (%r, %r, %r) is not one row of the candidate tables' % (j, v[j], e[j], f[j])
                if e[j] < 0 or e[j] > np.nanmin(pen[:, j]) * (1 + 1e-12) + 1e-300:
                    return True, 'column %d: error estimate %r is negative or not the column minimum %r' % (j, e[j], np.nanmin(pen[:, j]))
                X = float(np.median(dv[:, j]))
                t = float(np.max(np.abs(dv[:, j] - X)))
                if abs(v[j] - X) > e[j] + (w1 + 1e-6) * t * (1 + 1e-9) + 1e-11 * abs(X) + 1e-300:
                    return True, 'column %d: |value - X| = %r exceeds error %r + W*t = %r' % (j, abs(v[j] - X), e[j], (w1 + 1e-6) * t)
        return False, 'record consistent on the model point and 20 random tables'
    # record of the classes
    cls, method, dim = cfg['cls'], cfg['method'], cfg['c']
    rng = np.random.default_rng(1)
    xv = np.array([0.5, -0.75, 1.25][:dim])
    for trial in range(3):
        if cls == 'Derivative':
            cs = rng.uniform(-1, 1, size=3)
            f = lambda x: cs[0] + cs[1] * x + cs[2] * x * x  # noqa
            x_in = xv if dim > 1 else 0.5
        elif cls == 'Jacobian':
            A, b = rng.uniform(-1, 1, size=(2, dim)), rng.uniform(-1, 1, size=2)
            f = lambda x: A @ x + b  # noqa
            x_in = xv
        else:
            Q = rng.uniform(-1, 1, size=(dim, dim))
            Q = Q + Q.T
            cv = rng.uniform(-1, 1, size=dim)
            f = lambda x: 0.3 + cv @ x + 0.5 * x @ Q @ x  # noqa
            x_in = xv
        gen = nd.MinStepGenerator(base_step=0.375, step_ratio=2.0, num_steps=3, step_nom=1.0)
        kw = dict(step=gen, method=method, full_output=True)
        if cls == 'Derivative':
            kw.update(n=1, order=2)
        try:
            with cm.quiet():
                val, info = getattr(nd, cls)(f, **kw)(x_in)
        except Exception as e:  # noqa
            return True, '%s(method=%s) raises %s: %s' % (cls, method, type(e).__name__, e)
        if not (_compatible(np.shape(val), np.shape(info.error_estimate)) and _compatible(np.shape(val), np.shape(info.final_step))):
            return True, 'shapes: value %s error %s final_step %s' % (np.shape(val), np.shape(info.error_estimate), np.shape(info.final_step))
        x_call = np.atleast_1d(x_in).ravel() if cls != 'Derivative' else np.asarray(x_in)
        if not np.allclose(info.f_value, f(x_call), rtol=1e-14, atol=0):
            return True, 'f_value %r differs from f(x) %r' % (info.f_value, f(x_call))
        if np.any(np.asarray(info.error_estimate) < 0):
            return True, 'negative error estimate %r' % (info.error_estimate,)
        st = {0.25, 0.5, 1.0}
        if any(float(np.real(s)) not in st for s in np.ravel(info.final_step)):
            return True, 'final_step %r is not one of the generated steps %s' % (info.final_step, sorted(st))
    return False, 'record consistent on random coefficient draws'
