"""C08 -- array inputs are handled elementwise and keep their shape.

Non-interference (2-safety) of every stage between the user function and the returned value:

 U  on the real ``_Limit._extrapolate`` unit (fresh symbolic k x c estimates and steps, all selection outcomes
    explored): for every feasible path and every column c0
      (a) every path-condition conjunct mentions symbols of ONE column only (no decision mixes columns),
      (b) value / error_estimate / final_step of column c0 contain only symbols of column c0,
      (c) paths that agree on the column-c0 decisions return the SAME terms for column c0
          (so replacing the other columns cannot change column c0), and
      (d) the single-column run (c=1) returns, for the same decisions, the same terms (scalar == array element);
      gather + reshape put column j at C-order position j of the requested shape.
 V  ``LogRule._vstack`` / ``_Limit._vstack``: row = evaluation, column = element in C order, steps broadcast.
 E  end to end: the real ``Derivative.__call__`` on x of shape (), (3,), (2,2), (2,1,2) with an elementwise f that has
    its own symbolic coefficients per element: result has x's shape and entry idx contains only the symbols of
    element idx and equals the scalar run on that element; *args / **kwds reach f unchanged on every call.
"""
from __future__ import annotations

import numpy as np
import z3

from .. import symnum as sn
from .. import tracing as tr
from . import common as cm
from . import extrap_unit as eu

ID = 'C08'

META = {
    'title': 'elementwise handling of array inputs (non-interference)',
    'level': 'other',
    'explanation': (
        'Solver-based bounded non-interference check by self-composition over explored paths: the real selection pipeline is '
        'executed on symbolic k x c inputs; z3 decides path feasibility; on every feasible path the outputs of a column are '
        'terms over that column only, no branch decision mixes columns, and paths agreeing on a column\'s decisions return '
        'identical terms for it (also against the single-column run). End-to-end traces of Derivative on arrays of 0..3 axes with '
        'per-element symbolic coefficients check shape, placement and argument forwarding.'),
    'functions_encoded': ['numdifftools.limits._Limit._extrapolate/_get_best_estimate/_add_error_to_outliers/_get_arg_min/'
                          '_wynn_extrapolate/_vstack', 'numdifftools.finite_difference.LogRule._vstack/_apply/apply',
                          'numdifftools.extrapolation.Richardson.__call__/_estimate_error', 'numdifftools.extrapolation.dea3',
                          'numdifftools.core.Derivative.__call__/_get_functions/_derivative_nonzero_order'],
    'bounds': {'quick': 'unit: (k,c) in {(3,2),(4,2),(5,2),(4,3)} and shapes (2,), (3,), plus (3,4)->(2,2) placement, plus units with one '
                        'all-NaN column (a point where f is undefined at every step) next to symbolic columns; '
                        'end to end: shapes (), (3,), (2,2), (2,1,2), methods central/forward/complex/multicomplex, C- and Fortran-ordered x',
               'thorough': 'unit additionally (7,2),(5,3),(4,4)->(2,2) with forks'},
    'outside_claim': ['bit-identical float64 results follow from non-interference only under the assumption that each numpy '
                      'elementwise kernel is a deterministic function of its own operands (not checked here)',
                      'arrays with more than 4 elements in the forking unit; more than 3 axes'],
    'stubs': ['module global np -> symbolic numpy proxy', 'scipy convolve1d -> validated reference',
              'quotients / symbolic products inside dea3 -> uninterpreted functions'],
    'assumptions': ['exact real arithmetic'],
    'timeout_ms': {'quick': 60000, 'thorough': 120000},
}


def preflight(tier, seed):
    return {'convolve_stub_comparisons': tr.validate_convolve_stub(seed)}


def jobs(tier, seed):
    th = tier == 'thorough'
    out = []
    units = [(3, 2, [2]), (4, 2, [2]), (5, 2, [2]), (4, 3, [3]), (3, 4, [2, 2]), (3, 4, [4])]
    out.append(('unit-nan-column-k4', dict(kind='unit', k=4, c=2, shape=[2], method='nan')))
    out.append(('unit-nan-column-k5', dict(kind='unit', k=5, c=3, shape=[3], method='nan')))
    out.append(('unit-nan-partial-k5', dict(kind='unit', k=5, c=2, shape=[2], method='nanpartial')))
    out.append(('unit-nan-partial-k6', dict(kind='unit', k=6, c=3, shape=[3], method='nanpartial')))
    if th:
        units += [(7, 2, [2]), (5, 3, [3]), (4, 4, [2, 2])]
    for (k, c, shape) in units:
        out.append(('unit-k%d-c%d-%s' % (k, c, 'x'.join(map(str, shape))), dict(kind='unit', k=k, c=c, shape=shape, method='')))
    out.append(('vstack', dict(kind='vstack', k=3, c=0, shape=[], method='')))
    for method in ('central', 'forward', 'complex', 'multicomplex') + (('backward',) if th else ()):
        for shape in ([], [3], [2, 2], [2, 1, 2]):
            out.append(('e2e-%s-%s' % (method, 'x'.join(map(str, shape)) or 's'), dict(kind='e2e', k=0, c=0, shape=shape, method=method)))
        if method != 'multicomplex':
            # non C-contiguous inputs (Fortran order / transposed view): k=1 marks the memory layout
            for shape in ([2, 2], [3, 2], [2, 1, 2]):
                out.append(('e2e-%s-%s-F' % (method, 'x'.join(map(str, shape))), dict(kind='e2e', k=1, c=0, shape=shape, method=method)))
    # the arguments given to THIS call reach every evaluation of THIS call, also on an object that was called before with
    # other arguments at the same point (c = derivative order n)
    for method, n in (('central', 1), ('central', 2), ('forward', 1), ('backward', 2), ('complex', 1), ('complex', 2), ('multicomplex', 1)):
        for shape in ([], [2]):
            out.append(('args2-%s-n%d-%s' % (method, n, 'x'.join(map(str, shape)) or 's'),
                        dict(kind='args2', k=0, c=n, shape=shape, method=method)))
    out.append(('witness-scalar-vs-array-kernels', dict(kind='kernels', k=0, c=0, shape=[], method='')))
    return out


def run_job(job, kind, k, c, shape, method):
    if kind == 'kernels':
        bad = kernel_failures()
        if not job.confirm('scalar call == array element, bit for bit, on a grid of 11264 points (concrete runs)', not bad):
            job.violation('kernels', dict(key='C08:scalar-path-differs-from-array-path', kind='kernels', detail=bad[0]))
        return
    if kind == 'args2':
        return args2(job, method, c, tuple(shape))
    if kind == 'unit':
        if method == 'nanpartial':
            # the last column is NaN for the two largest steps only; nothing is claimed about it, the others must not notice
            return unit(job, k, c, tuple(shape), nan_cols=(c - 1,), nan_cells=((0, c - 1), (1, c - 1)))
        return unit(job, k, c, tuple(shape), nan_cols=(c - 1,) if method == 'nan' else ())
    if kind == 'vstack':
        return vstack(job)
    return e2e(job, method, tuple(shape), fortran=bool(k))


def _out_terms(r, j):
    return [cm.flat_list(r[x])[j] for x in ('val', 'err', 'fstep')]


def _same(a, b):
    ta = a if isinstance(a, z3.ExprRef) else sn.lift(a)
    tb = b if isinstance(b, z3.ExprRef) else sn.lift(b)
    return z3.is_true(z3.simplify(ta == tb))


def unit(job, k, c, shape, nan_cols=(), nan_cells=None):
    der, steps, paths, ex = eu.explore(k, c, shape, **(dict(nan_cells=nan_cells) if nan_cells else dict(nan_cols=nan_cols)))
    job.absorb_explorer(ex)
    # the single-column reference run (same symbol names as column 0)
    _d1, _s1, paths1, ex1 = eu.explore(k, 1, ())
    job.absorb_explorer(ex1)
    ref = {}
    ref_terms = {}
    for p in paths1:
        if p.exc is None:
            g, _m = eu.split_conds(p, 1)
            ref[g[0]] = _out_terms(p.result, 0)
            ref_terms[g[0]] = list(eu.TERMS[(0, g[0])])
    col_terms = {}
    groups = {j: {} for j in range(c)}
    for p in paths:
        if p.exc is not None:
            job.violation('raises', dict(key='C08:unit:raises:%s' % type(p.exc).__name__, kind='unit', exc=repr(p.exc)[:200]))
            continue
        r = p.result
        if not job.confirm('shape', np.shape(r['val']) == shape):
            job.violation('shape', dict(key='C08:unit:shape', kind='unit', got=list(np.shape(r['val']))))
            continue
        g, mixed = eu.split_conds(p, c)
        for j in range(c):
            col_terms[(j, g[j])] = list(eu.TERMS[(j, g[j])])
        if not job.confirm('no decision mixes columns', not mixed):
            job.violation('mixed-decision', dict(key='C08:unit:decision-mixes-columns', kind='unit', k=k, c=c,
                                                 example=str(mixed[0])[:200]))
        for j in range(c):
            if j in nan_cols:
                continue            # nothing is claimed about a column without any usable estimate
            outs = _out_terms(r, j)
            used = set()
            for o in outs:
                used |= {v for v in sn.term_vars(z3.simplify(sn.lift(o))) if eu.col_of(v) is not None}
            foreign = {v for v in used if eu.col_of(v) != j}
            if not job.confirm('column %d output uses only column %d symbols' % (j, j), not foreign):
                job.violation('foreign-symbol', dict(key='C08:unit:output-depends-on-other-column', kind='unit', k=k, c=c, col=j,
                                                     foreign=sorted(foreign)[:4]))
                continue
            prev = groups[j].get(g[j])
            if prev is None:
                groups[j][g[j]] = outs
            else:
                same = all(_same(a, b) for a, b in zip(prev, outs))
                if not job.confirm('same column-%d decisions => same column-%d output' % (j, j), same):
                    job.violation('choice-depends', dict(key='C08:unit:selection-depends-on-other-column', kind='unit', k=k, c=c, col=j))
    matched = [0]
    # (d) scalar run == array element: rename column j symbols to column 0 and compare with the reference table
    pos = [z3.Real('h_%d_0' % i) > 0 for i in range(k)]
    for j in range(c):
        if j in nan_cols:
            continue
        for gkey, outs in groups[j].items():
            ren = tuple(sorted(_rename_sexpr(sx, j) for sx in gkey))
            rf = ref.get(ren)
            if rf is not None:
                matched[0] += 1
                same = all(_same(_rename_term(sn.lift(a), j, k), sn.lift(b)) for a, b in zip(outs, rf))
                if not job.confirm('column %d equals the single-column run' % j, same):
                    job.violation('scalar-differs', dict(key='C08:unit:array-element-differs-from-scalar-run', kind='unit', k=k, c=c, col=j))
                continue
            # the decisions of this column do not coincide with one path of the 1-column run: solver equivalence against
            # every path of the 1-column run that is compatible with them
            mine = [_rename_term(t, j, k) for t in col_terms.get((j, gkey), [])]
            for rkey, routs in ref.items():
                both = pos + mine + ref_terms[rkey]
                for a, b in zip(outs, routs):
                    matched[0] += 1
                    job.prove('column %d == single-column run wherever both paths apply' % j,
                              _rename_term(sn.lift(a), j, k) == sn.lift(b), both,
                              dict(key='C08:unit:array-element-differs-from-scalar-run', kind='unit', k=k, c=c, col=j,
                                   nan_cols=list(nan_cols)))
    job.twin('paths', [z3.BoolVal(bool(paths) and bool(paths1))])
    job.twin('scalar-vs-array comparisons happened', [z3.BoolVal(matched[0] > 0)])


def _rename_term(t, j, k):
    subs = []
    for i in range(k):
        subs.append((z3.Real('d_%d_%d' % (i, j)), z3.Real('d_%d_0' % i)))
        subs.append((z3.Real('h_%d_%d' % (i, j)), z3.Real('h_%d_0' % i)))
    return z3.substitute(t, *subs)


def _rename_sexpr(sx, j):
    import re
    return re.sub(r'\b([dh]_\d+)_%d\b' % j, r'\1_0', sx)


def vstack(job):
    fd, lim = cm.nd_mods()['fd'], cm.nd_mods()['lim']
    for shape in ((), (3,), (2, 2), (2, 1, 2)):
        size = int(np.prod(shape)) if shape else 1
        seq, steps = [], []
        for i in range(3):
            a = np.empty(shape, dtype=object)
            for idx in np.ndindex(shape):
                a[idx] = sn.real_var('v_%d_%s' % (i, '_'.join(map(str, idx)) or 's'))
            if shape == ():
                a[()] = sn.real_var('v_%d_s' % i)
            seq.append(a.view(sn.SymArr) if shape else a[()])
            steps.append(0.5 ** i)
        for fn, name in ((fd.LogRule._vstack, 'LogRule._vstack'), (lim._Limit._vstack, '_Limit._vstack')):
            def harness():
                with tr.traced():
                    return fn(seq, steps)
            f_del, h, oshape = sn.run_single(harness).result
            ok = np.shape(f_del) == (3, size) and np.shape(h) == (3, size) and tuple(oshape) == shape
            if not job.confirm('%s shapes %s' % (name, shape), ok):
                job.violation('vstack-shape', dict(key='C08:vstack:shape', kind='vstack', fn=name, shape=list(shape)))
                continue
            fl = np.asarray(f_del)
            good = True
            for i in range(3):
                want = cm.flat_list(seq[i])
                for j in range(size):
                    good &= _same(fl[i, j], want[j]) and float(np.asarray(h)[i, j]) == 0.5 ** i
            if not job.confirm('%s row=evaluation, column=element (C order)' % name, good):
                job.violation('vstack-order', dict(key='C08:vstack:element-order', kind='vstack', fn=name, shape=list(shape)))
    # a function that does not return one value per element must raise ValueError
    for fn in (fd.LogRule._vstack, lim._Limit._vstack):
        try:
            fn([np.zeros(3), np.zeros(3)], [np.ones(2), np.ones(2)])
            job.violation('vstack-size', dict(key='C08:vstack:size-check-missing', kind='vstack', fn=fn.__qualname__, shape=[]))
        except ValueError:
            job.confirm('size mismatch raises ValueError', True)


def e2e(job, method, shape, fortran=False):
    nd = cm.nd_mods()['nd']
    size = int(np.prod(shape)) if shape else 1
    xs = np.linspace(0.25, 1.5, size).reshape(shape) if shape else 0.75
    if fortran:
        xs = np.asfortranarray(xs)
    deg = 2

    def elem_names(idx):
        return ['a%d_%s' % (p, '_'.join(map(str, idx)) or 's') for p in range(deg + 1)]
    coef = {}
    for idx in (np.ndindex(shape) if shape else [()]):
        coef[idx] = [sn.real_var(nm) for nm in elem_names(idx)]
    marker, kwmarker = object(), object()
    seen_args = []

    def f(x, tag, key=None):
        seen_args.append(tag is marker and key is kwmarker)
        mc = cm.nd_mods()['mc']
        if isinstance(x, mc.Bicomplex):
            if shape == ():
                return cm.poly_fun(coef[()])(x)
            raise sn.Unsupported('per-element coefficients on a Bicomplex array')
        if shape == ():
            return cm.poly_fun(coef[()])(x)
        xa = np.asarray(x)
        out = np.empty_like(xa, dtype=object)        # an elementwise function keeps the memory layout of its argument
        for idx in np.ndindex(shape):
            out[idx] = cm.poly_fun(coef[idx])(xa[idx])
        return out.view(sn.SymArr)
    if method == 'multicomplex' and shape != ():
        # Bicomplex arrays cannot carry per-element coefficient symbols through object arithmetic: use shared ones
        shared = [sn.real_var('a%d_s' % p) for p in range(deg + 1)]

        def f(x, tag, key=None):  # noqa: F811
            seen_args.append(tag is marker and key is kwmarker)
            return cm.poly_fun(shared)(x)

    def run(xv):
        def harness():
            del seen_args[:]
            with tr.traced(), sn.abstract_division(products=True), cm.quiet():
                # default nominal step (an elementwise function of x) keeps the memory layout of x in x + h
                gen = nd.MinStepGenerator(base_step=0.25, step_ratio=2.0, num_steps=3, step_nom=None if fortran else 1.0)
                d = nd.Derivative(f, step=gen, method=method, n=1, order=2)
                return d(xv, marker, key=kwmarker), list(seen_args)
        ex = sn.Explorer(harness, max_paths=64, timeout_ms=20000)
        ps = list(ex.paths())
        job.absorb_explorer(ex)
        return ps
    paths = run(xs)
    for p in paths:
        if p.exc is not None:
            job.violation('raises', dict(key='C08:e2e:%s:raises:%s' % (method, type(p.exc).__name__), kind='e2e', exc=repr(p.exc)[:300]))
            continue
        val, flags = p.result
        if not job.confirm('result shape == x shape', np.shape(val) == shape):
            job.violation('shape', dict(key='C08:e2e:%s:shape' % method, kind='e2e', got=list(np.shape(val)), want=list(shape)))
            continue
        if not job.confirm('args/kwds forwarded on every call', all(flags) and len(flags) > 0):
            job.violation('forwarding', dict(key='C08:e2e:args-not-forwarded', kind='e2e'))
        if method == 'multicomplex' and shape != ():
            continue
        va = np.asarray(val) if shape else None
        for idx in (np.ndindex(shape) if shape else [()]):
            v = va[idx] if shape else val
            allowed = set(elem_names(idx))
            used = {u for u in sn.value_vars(v) if not u.startswith('uf_')}
            if not job.confirm('entry %s depends only on element %s' % (idx, idx), used <= allowed):
                job.violation('interference', dict(key='C08:e2e:%s:entry-depends-on-other-element' % method, kind='e2e',
                                                   idx=list(idx), foreign=sorted(used - allowed)[:4]))
    # scalar == array element: run the scalar case with the coefficient symbols of one element
    if shape and method != 'multicomplex':
        for idx in list(np.ndindex(shape))[:2]:
            saved = coef.get(())
            coef[()] = coef[idx]
            shape_saved = shape

            def fs(x, tag, key=None):
                seen_args.append(True)
                return cm.poly_fun(coef[idx])(x)

            def harness_s():
                with tr.traced(), sn.abstract_division(products=True), cm.quiet():
                    gen = nd.MinStepGenerator(base_step=0.25, step_ratio=2.0, num_steps=3, step_nom=None if fortran else 1.0)
                    return nd.Derivative(fs, step=gen, method=method, n=1, order=2)(float(np.asarray(xs)[idx]), marker, key=kwmarker)
            exs = sn.Explorer(harness_s, max_paths=64, timeout_ms=20000)
            ps = [q for q in exs.paths() if q.exc is None]
            job.absorb_explorer(exs)
            arr_terms = [np.asarray(p.result[0])[idx] for p in paths if p.exc is None]
            ok = bool(ps) and all(any(_same_c(q.result, a) for a in arr_terms) for q in ps)
            if not job.confirm('scalar evaluation of element %s equals the array entry' % (idx,), ok):
                job.violation('scalar-differs', dict(key='C08:e2e:%s:scalar-differs-from-array-entry' % method, kind='e2e', idx=list(idx)))



def args2(job, method, n, shape):
    """one Derivative object called twice at the same point with different positional and keyword arguments: the second
    result is a term over the second call's arguments only and equals a fresh object's result"""
    nd = cm.nd_mods()['nd']
    xs = np.array([0.5, 1.25]) if shape else 0.75
    A = [sn.real_var('arg_a%d' % i) for i in (1, 2)]
    K = [sn.real_var('kw_k%d' % i) for i in (1, 2)]
    c = [sn.real_var('c%d' % i) for i in range(3)]
    seen = []

    def f(x, a, key=None, full=None):
        seen.append((a, key))
        return a + c[0] + c[1] * x + key * c[2] * x * x

    def mk():
        gen = nd.MinStepGenerator(base_step=0.25, step_ratio=2.0, num_steps=4, step_nom=1.0)
        return nd.Derivative(f, step=gen, method=method, n=n, order=2)

    def harness():
        del seen[:]
        with tr.traced(), sn.abstract_division(products=True), cm.quiet():
            d = mk()
            r1 = d(xs, A[0], key=K[0])
            n1 = len(seen)
            r2 = d(xs, A[1], key=K[1])
            second = list(seen[n1:])
            fresh = mk()(xs, A[1], key=K[1])
            # with full_output the value f(x) of the record is one more evaluation: it receives the arguments as well
            n2 = len(seen)
            dfo = mk()
            dfo.full_output = True
            vfo, info = dfo(xs, A[1], key=K[1])
            second = second + list(seen[n2:])
            fval = info.f_value
            want_f = f(xs, A[1], key=K[1])      # same arithmetic context as the traced run
            seen.pop()
            return r1, r2, fresh, second, (fval, want_f)
    ex = sn.Explorer(harness, max_paths=64, timeout_ms=20000)
    ps = list(ex.paths())
    job.absorb_explorer(ex)
    for p in ps:
        if p.exc is not None:
            job.violation('raises', dict(key='C08:args2:%s:raises:%s' % (method, type(p.exc).__name__), kind='args2', exc=repr(p.exc)[:300]))
            continue
        r1, r2, fresh, second, (fval, want_f) = p.result
        fa, fw = (cm.flat_list(fval) if np.ndim(fval) else [fval]), (cm.flat_list(want_f) if np.ndim(want_f) else [want_f])
        if not job.confirm('info.f_value is f(x, *args, **kwds)', len(fa) == len(fw) and all(_same_c(u, v) for u, v in zip(fa, fw))):
            job.violation('f_value', dict(key='C08:args2:%s:f_value-without-arguments' % method, kind='args2'))
        ok = len(second) > 0 and all(a is A[1] and k is K[1] for (a, k) in second)
        if not job.confirm('every evaluation of the second call receives the second call\'s arguments', ok):
            job.violation('forwarding', dict(key='C08:args2:%s:stale-arguments-passed' % method, kind='args2'))
        used = set()
        for v in (cm.flat_list(r2) if np.ndim(r2) else [r2]):
            used |= {u for u in sn.value_vars(v) if not u.startswith('uf_')}
        stale = sorted(used & {'arg_a1', 'kw_k1'})
        if not job.confirm('second result is a term over the second call\'s arguments only', not stale):
            job.violation('stale', dict(key='C08:args2:%s:second-call-uses-first-calls-arguments' % method, kind='args2', stale=stale))
            continue
        a2 = cm.flat_list(r2) if np.ndim(r2) else [r2]
        af = cm.flat_list(fresh) if np.ndim(fresh) else [fresh]
        same = len(a2) == len(af) and all(_same_c(u, v) for u, v in zip(a2, af))
        if not job.confirm('second result equals a fresh object\'s result', same):
            job.violation('differs', dict(key='C08:args2:%s:second-call-differs-from-fresh-object' % method, kind='args2'))


def kernel_failures():
    """CONCRETE witness runs (not solver evidence).  The non-interference result carries over to bit-identical floats only if a
    value is processed by the same floating-point kernels whether it arrives as a scalar or as an array element (stated
    assumption of this check).  This is probed where the library treats the two differently: the nominal step (a log) on a grid
    of 11264 points with |x| > 1, and whole first derivatives on a subset."""
    sg = cm.nd_mods()['sg']
    nd = cm.nd_mods()['nd']
    bad = []
    xs = np.arange(1025, 12289) / 1024.0
    arr = np.asarray(sg.get_nominal_step(xs))
    sca = np.array([float(np.asarray(sg.get_nominal_step(float(v)))) for v in xs])
    one = np.array([float(np.asarray(sg.get_nominal_step(np.array([v])))[0]) for v in xs[::16]])
    diff = np.flatnonzero(arr != sca)
    if diff.size:
        v = xs[diff[0]]
        bad.append('get_nominal_step(%r) = %r as a scalar but %r as an array element (%d of %d grid points differ)'
                   % (float(v), float(sca[diff[0]]), float(arr[diff[0]]), diff.size, xs.size))
    if np.any(one != arr[::16]):
        bad.append('get_nominal_step of a one-element array differs from the element of a longer array')
    pts = [float(v) for v in (xs[diff[:20]] if diff.size else xs[::563])]
    for method in ('central', 'forward'):
        d = nd.Derivative(np.exp, method=method)
        for v in pts:
            with cm.quiet():
                a = float(np.asarray(d(np.array([v, 2.0, 0.5])))[0])
                b = float(d(v))
            if a != b:
                bad.append('Derivative(exp, method=%s): %r inside an array gives %r, alone as a scalar %r' % (method, v, a, b))
                break
    return bad


def _same_c(a, b):
    a, b = sn.as_symc(a if not isinstance(a, np.ndarray) else a[()]), sn.as_symc(b if not isinstance(b, np.ndarray) else b[()])
    return _same(a.re, b.re) and _same(a.im, b.im)


# --------------------------------------------------------------------------
def replay(cex):
    mods = cm.nd_mods()
    nd, lim, ex, fd = mods['nd'], mods['lim'], mods['ex'], mods['fd']
    cfg = cex['config']
    kind = cex.get('kind')
    rng = np.random.default_rng(0)
    if kind == 'unit':
        k, c, shape = cfg['k'], cfg['c'], tuple(cfg['shape'])
        if cfg.get('method') in ('nan', 'nanpartial'):
            asg_ = cm.assignment_from_model(cex.get('model', {}))
            for trial in range(400 if cfg.get('method') == 'nanpartial' else 50):
                dv = 1.0 + rng.normal(size=(k, c)) * 10.0 ** rng.integers(-6, 1)
                if trial == 0 and asg_:
                    # the solver's own table first (column symbols d_i_j; the counterexample may have been found after renaming
                    # the column to 0, so the values are tried for every column)
                    for i in range(k):
                        for j in range(c):
                            dv[i, j] = float(asg_.get('d_%d_%d' % (i, j), asg_.get('d_%d_0' % i, dv[i, j])))
                if cfg.get('method') == 'nan':
                    dv[:, c - 1] = np.nan
                else:
                    dv[:2, c - 1] = np.nan          # NaN for the two largest steps only
                    if trial % 2:
                        dv[rng.integers(0, k), 0] *= 1.0 + 10.0 ** rng.integers(0, 3)     # an outlier in the finite column
                hv = 0.5 ** np.arange(k)[:, None] * np.ones((1, c))
                if trial == 0 and asg_:
                    for i in range(k):
                        for j in range(c):
                            hv[i, j] = abs(float(asg_.get('h_%d_%d' % (i, j), asg_.get('h_%d_0' % i, hv[i, j])))) or hv[i, j]
                mk = lambda: ex.Richardson(step_ratio=2.0, step=2, order=2, num_terms=2)  # noqa
                L = lim._Limit(); L.richardson = mk()
                with cm.quiet():
                    val, info = L._extrapolate(dv.copy(), hv.copy(), shape)
                for j in range(c - 1):
                    with cm.quiet():
                        L1 = lim._Limit(); L1.richardson = mk()
                        v1, i1 = L1._extrapolate(dv[:, [j]].copy(), hv[:, [j]].copy(), ())
                    a = (np.ravel(val)[j], np.ravel(info.error_estimate)[j], np.ravel(info.final_step)[j])
                    s_ = (float(v1), float(i1.error_estimate), float(i1.final_step))
                    if a != s_:
                        return True, ('with a neighbour column that is NaN (%s), column %d gives (value, error, final_step) = %r; evaluated alone it '
                                      'gives %r' % ('at every step' if cfg.get('method') == 'nan' else 'at the two largest steps', j, a, s_))
            if cfg.get('method') == 'nanpartial':
                # end to end: functions that are NaN for the large steps only at some elements (sqrt / log near their domain boundary)
                import warnings
                for fun, pts in ((np.sqrt, [8.0, 0.5, 0.75, 20.0, 3.0]), (np.log, [6.0, 0.4, 0.7, 15.0, 2.0])):
                    for kw in (dict(), dict(n=2), dict(n=3), dict(method='backward'), dict(method='forward', n=2), dict(order=4)):
                        xarr = np.array(pts)
                        with cm.quiet(), warnings.catch_warnings(), np.errstate(all='ignore'):
                            warnings.simplefilter('ignore')
                            va = nd.Derivative(fun, **kw)(xarr)
                            for i, xv in enumerate(pts):
                                vs = nd.Derivative(fun, **kw)(xv)
                                if not (va[i] == vs or (np.isnan(va[i]) and np.isnan(vs))):
                                    return True, ('Derivative(%s, %s): element %r gives %r inside the array %r, %r alone as a scalar'
                                                  % (fun.__name__, kw, xv, va[i], pts, vs))
            return False, 'a column with NaN estimates does not influence its neighbours'
        for trial in range(200):
            scale = 10.0 ** rng.integers(-8, 1)
            dv = 1.0 + rng.normal(size=(k, c)) * scale
            if trial % 3 == 0:
                dv[:, 1:] = dv[:, 1:] * 50 + 3
            hv = 0.5 ** np.arange(k)[:, None] * np.ones((1, c))
            L = lim._Limit()
            L.richardson = ex.Richardson(step_ratio=2.0, step=2, order=2, num_terms=2)
            try:
                with cm.quiet():
                    val, info = L._extrapolate(dv.copy(), hv.copy(), shape)
            except Exception as e:  # noqa
                return True, '_extrapolate raises %s: %s' % (type(e).__name__, e)
            if np.shape(val) != shape:
                return True, 'shape %s for requested %s' % (np.shape(val), shape)
            for j in range(c):
                dv2 = dv.copy()
                others = [q for q in range(c) if q != j]
                dv2[:, others] = rng.normal(size=(k, len(others))) * 10.0 ** rng.integers(-3, 3) + rng.normal()
                L2 = lim._Limit()
                L2.richardson = ex.Richardson(step_ratio=2.0, step=2, order=2, num_terms=2)
                with cm.quiet():
                    val2, info2 = L2._extrapolate(dv2.copy(), hv.copy(), shape)
                    L1 = lim._Limit()
                    L1.richardson = ex.Richardson(step_ratio=2.0, step=2, order=2, num_terms=2)
                    val1, info1 = L1._extrapolate(dv[:, [j]].copy(), hv[:, [j]].copy(), ())
                a = (np.ravel(val)[j], np.ravel(info.error_estimate)[j], np.ravel(info.final_step)[j])
                b = (np.ravel(val2)[j], np.ravel(info2.error_estimate)[j], np.ravel(info2.final_step)[j])
                s = (float(val1), float(info1.error_estimate), float(info1.final_step))
                if a != b:
                    return True, 'column %d of (value, error, final_step) changes from %r to %r when only the other columns change' % (j, a, b)
                if a != s:
                    return True, 'column %d evaluated alone gives %r, inside the array %r' % (j, s, a)
        return False, 'no interference on 200 random tables'
    if kind == 'vstack':
        for shape in ((3,), (2, 2), (2, 1, 2)):
            seq = [rng.normal(size=shape) for _ in range(3)]
            for fn in (fd.LogRule._vstack, lim._Limit._vstack):
                f_del, h, osh = fn(seq, [1.0, 0.5, 0.25])
                if f_del.shape != (3, int(np.prod(shape))) or tuple(osh) != shape or not all(np.array_equal(f_del[i], seq[i].ravel()) for i in range(3)):
                    return True, '%s does not flatten evaluations into rows in C order for shape %s' % (fn.__qualname__, shape)
        try:
            fd.LogRule._vstack([np.zeros(3), np.zeros(3)], [np.ones(2), np.ones(2)])
            return True, 'size mismatch accepted'
        except ValueError:
            pass
        return False, 'vstack ok'
    if kind == 'kernels':
        bad = kernel_failures()
        return (True, bad[0]) if bad else (False, 'scalar and array paths agree bit for bit')
    if kind == 'args2':
        method, n, shape = cfg['method'], cfg['c'], tuple(cfg['shape'])
        xs = np.array([0.5, 1.25]) if shape else 0.75
        f = lambda x, a, key=None: a + 0.3 + 0.7 * x + key * 1.1 * x * x  # noqa
        mk = lambda: nd.Derivative(f, method=method, n=n, order=2)  # noqa
        for (a1, k1, a2, k2) in ((3.0, 2.0, -1.0, 4.0), (1e6, 2.0 ** 20, 0.5, 1.0), (0.0, 1.0, 7.0, -3.0), (3.0, 2.0 ** 20, 3.0, 4.0),
                                 (3.0, 2.0, 1e6, 2.0)):
            d = mk()
            with cm.quiet():
                d(xs, a1, key=k1)
                got = d(xs, a2, key=k2)
                want = mk()(xs, a2, key=k2)
            with cm.quiet():
                try:
                    vfo, info = nd.Derivative(f, method=method, n=n, order=2, full_output=True)(xs, a2, key=k2)
                except Exception as e:  # noqa
                    return True, 'Derivative(method=%s, n=%d, full_output=True)(x, a, key=k) raises %s: %s' % (method, n, type(e).__name__, e)
            if not np.array_equal(np.asarray(info.f_value), np.asarray(f(xs, a2, key=k2))):
                return True, ('Derivative(method=%s, n=%d, full_output=True): info.f_value = %r, but f(x, a=%r, key=%r) = %r'
                              % (method, n, info.f_value, a2, k2, f(xs, a2, key=k2)))
            if not np.array_equal(np.asarray(got), np.asarray(want)):
                return True, ('Derivative(method=%s, n=%d): after a call with (a=%r, key=%r) the same object called at the same x with '
                              '(a=%r, key=%r) returns %r, a fresh object %r' % (method, n, a1, k1, a2, k2, got, want))
        return False, 'second call equals fresh object'
    if kind == 'e2e':
        method, shape = cfg['method'], tuple(cfg['shape'])
        size = int(np.prod(shape)) if shape else 1
        xs = np.linspace(0.25, 1.5, size).reshape(shape) if shape else 0.75
        if cfg.get('k'):
            xs = np.asfortranarray(xs)
        for trial in range(5):
            cs = rng.uniform(-1, 1, size=(3,) + shape)
            if cfg.get('k'):
                cs = [np.asfortranarray(c) for c in cs]      # same memory layout as x: an elementwise f preserves it
            seen = []

            def f(x, tag, key=None):
                seen.append(tag == 'T' and key == 'K')
                return cs[0] + cs[1] * x + cs[2] * x * x
            gen = nd.MinStepGenerator(base_step=0.25, step_ratio=2.0, num_steps=3, step_nom=None if cfg.get('k') else 1.0)
            try:
                with cm.quiet():
                    val = nd.Derivative(f, step=gen, method=method, n=1, order=2)(xs, 'T', key='K')
            except Exception as e:  # noqa
                return True, 'Derivative raises %s: %s for x of shape %s' % (type(e).__name__, e, shape)
            if np.shape(val) != shape:
                return True, 'result shape %s for x of shape %s' % (np.shape(val), shape)
            if not all(seen):
                return True, 'extra arguments not forwarded to f'
            for idx in (list(np.ndindex(shape))[:3] if shape else []):
                def fsc(x, tag, key=None, idx=idx):
                    return cs[0][idx] + cs[1][idx] * x + cs[2][idx] * x * x
                with cm.quiet():
                    sv = nd.Derivative(fsc, step=gen, method=method, n=1, order=2)(float(xs[idx]), 'T', key='K')
                if np.asarray(val)[idx] != sv and method in ('central', 'forward', 'backward'):
                    return True, 'entry %s of the array result %r differs from the scalar evaluation %r' % (idx, np.asarray(val)[idx], sv)
                want = cs[1][idx] + 2 * cs[2][idx] * xs[idx]
                if abs(np.asarray(val)[idx] - want) > 1e-6 * (1 + abs(want)):
                    return True, 'entry %s = %r, derivative of the element function is %r' % (idx, np.asarray(val)[idx], want)
        return False, 'elementwise on random coefficient draws'
    return None, 'unknown kind'
