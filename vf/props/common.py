"""Helpers shared by property harnesses."""
from __future__ import annotations

import contextlib
import math
import warnings
from fractions import Fraction

import numpy as np
import z3

from .. import symnum as sn
from .. import tracing as tr

METHODS5 = ['central', 'forward', 'backward', 'complex', 'multicomplex']


def nd_mods():
    import numdifftools as nd  # noqa
    import numdifftools.core as core
    import numdifftools.finite_difference as fd
    import numdifftools.extrapolation as ex
    import numdifftools.limits as lim
    import numdifftools.step_generators as sg
    import numdifftools.multicomplex as mc
    import numdifftools.fornberg as fb
    return dict(nd=nd, core=core, fd=fd, ex=ex, lim=lim, sg=sg, mc=mc, fb=fb)


@contextlib.contextmanager
def quiet():
    with warnings.catch_warnings():
        warnings.simplefilter('ignore')
        yield


def poly_fun(coefs):
    """Horner evaluation of sum coefs[p] t**p on whatever the library passes in."""
    deg = len(coefs) - 1

    def f(t, *args, **kwds):
        acc = coefs[deg]
        for p in range(deg - 1, -1, -1):
            acc = acc * t + coefs[p]
        return acc
    return f


def poly_deriv_at(coefs, n, x):
    """n-th derivative of the polynomial at x (independent oracle), works for Sym / Fraction"""
    deg = len(coefs) - 1
    acc = 0
    for p in range(deg, n - 1, -1):
        c = math.perm(p, n)
        acc = acc * x + coefs[p] * c
    return acc


def frac(v):
    if isinstance(v, Fraction):
        return v
    if isinstance(v, (int, np.integer)):
        return Fraction(int(v))
    return Fraction(float(v))


def rv(v):
    return sn.ratval(v)


def zabs(t):
    return z3.If(t >= 0, t, -t)


def zmax(ts):
    r = ts[0]
    for t in ts[1:]:
        r = z3.If(t >= r, t, r)
    return r


def flat_list(a):
    if isinstance(a, np.ndarray):
        return list(np.asarray(a).ravel())
    if isinstance(a, (list, tuple)):
        out = []
        for e in a:
            out.extend(flat_list(e))
        return out
    return [a]


def lin_coeffs(term, names):
    """For a term that is linear in the constants ``names`` (with rational coefficients):
    {name: Fraction coefficient, None: constant}.  Computed with the solver's own
    substitution + simplification (no separate algebra system)."""
    zero = [(z3.Real(nm), z3.RealVal(0)) for nm in names]
    out = {}
    c0 = sn._const_value(z3.simplify(z3.substitute(term, *zero)))
    if c0 is None:
        raise sn.Unsupported('term is not closed after substituting all coefficient symbols')
    out[None] = c0
    for i, nm in enumerate(names):
        sub = list(zero)
        sub[i] = (z3.Real(nm), z3.RealVal(1))
        ci = sn._const_value(z3.simplify(z3.substitute(term, *sub)))
        if ci is None:
            raise sn.Unsupported('term is not closed after substituting all coefficient symbols')
        out[nm] = ci - c0
    return out


def assignment_from_model(model_dict):
    from ..core import parse_frac
    out = {}
    for k, v in model_dict.items():
        if isinstance(v, str) and '/' in v:
            try:
                out[k] = parse_frac(v)
            except Exception:  # noqa
                pass
    return out


def rand_fracs(rng, n, lo=-1.0, hi=1.0, den=64):
    return [Fraction(int(rng.integers(int(lo * den), int(hi * den) + 1)), den) for _ in range(n)]
