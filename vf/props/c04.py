"""C04 -- Hessian is symmetric and correct; Hessdiag is its diagonal.

 S  stencil level: every real ``HessianDifferenceFunctions`` / ``HessdiagDifferenceFunctions`` method (reached through the
    real rule's name dispatch) is run on f(x) = x'Qx/2 + c'x + d with SYMBOLIC symmetric Q, c, d, SYMBOLIC x and SYMBOLIC
    steps h > 0 (complex / multicomplex through complex pairs and the real Bicomplex ring):
        stencil[i, j] * (its divisor) == Q[i, j] * (its divisor)   for all Q, c, d, x, h       (polynomial identity, z3)
    and the returned matrix is symmetric entry by entry (hess[i,j] and hess[j,i] are the same term).
 E  end to end: ``Hessian(f)(x)`` / ``Hessdiag(f)(x)`` through the public __call__ with a short step sequence: shape (n,n)
    / (n,), every entry within 1e-9 of Q[i,j] for all coefficients, H[i,j] == H[j,i] exactly, Hessdiag (orders 2,4,6) ==
    diag(Q) and == diag(Hessian); complex-valued quadratic with the real-step methods.
 L  a scalar function returning a length-1 array: concrete run of every method (float-array assignment semantics are the
    subject there, which the object-array trace cannot represent; reported as a concrete witness, not solver evidence).
"""
from __future__ import annotations

from fractions import Fraction

import numpy as np
import z3

from .. import symnum as sn
from .. import tracing as tr
from . import common as cm

ID = 'C04'
TOL = Fraction(1, 10 ** 9)
HMETHODS = ['central', 'central2', 'forward', 'backward', 'complex', 'multicomplex']

META = {
    'title': 'Hessian symmetric and exact on quadratics; Hessdiag its diagonal',
    'level': 'other',
    'explanation': (
        'Solver-based bounded checking of the real Hessian / Hessdiag code: all twelve stencil functions are executed on a '
        'quadratic with symbolic symmetric matrix, symbolic point and symbolic positive steps and z3 proves the polynomial '
        'identity stencil == Q[i,j] (after clearing the stencil divisor) and entrywise symmetry; the public classes are run end '
        'to end on symbolic-coefficient quadratics (real and complex-valued) and z3 (QF_LRA) proves shape, exactness, exact '
        'symmetry and Hessdiag == diag(Hessian) for all coefficients.'),
    'functions_encoded': ['numdifftools.finite_difference.HessianDifferenceFunctions._complex_even/_multicomplex2/_central_even/'
                          '_central2/_forward/_backward', 'HessdiagDifferenceFunctions._central2/_central_even/_backward/_forward/'
                          '_multicomplex2/_complex_even', 'LogHessianRule / LogHessdiagRule name dispatch, apply',
                          'numdifftools.core.Hessian.__init__/__call__, Hessdiag.__init__/__call__/_get_functions',
                          'numdifftools.multicomplex.Bicomplex ring operations'],
    'bounds': {'quick': 'n <= 3 (stencils and end to end), all six methods, Hessdiag orders 2,4,6',
               'thorough': 'n <= 4'},
    'outside_claim': ['non-quadratic f (truncation behaviour)', 'length-1-array return values are exercised concretely only'],
    'stubs': ['module global np -> symbolic numpy proxy (np.outer / np.empty buffers widened to object dtype)',
              'scipy convolve1d -> validated reference'],
    'assumptions': ['exact real arithmetic', 'steps h_i > 0', 'coefficients in [-1,1] for the end-to-end tolerance 1e-9'],
    'timeout_ms': {'quick': 120000, 'thorough': 300000},
}


def preflight(tier, seed):
    return {'convolve_stub_comparisons': tr.validate_convolve_stub(seed)}


def jobs(tier, seed):
    nmax = 4 if tier == 'thorough' else 3
    out = []
    for n in range(1, nmax + 1):
        for method in HMETHODS:
            out.append(('stencil-hessian-%s-n%d' % (method, n), dict(kind='stencil', cls='Hessian', method=method, n=n, order=0, cplx=False)))
            out.append(('stencil-hessdiag-%s-n%d' % (method, n), dict(kind='stencil', cls='Hessdiag', method=method, n=n, order=2, cplx=False)))
            out.append(('e2e-hessian-%s-n%d' % (method, n), dict(kind='e2e', cls='Hessian', method=method, n=n, order=0, cplx=False)))
            for order in (2, 4, 6):
                out.append(('e2e-hessdiag-%s-o%d-n%d' % (method, order, n), dict(kind='e2e', cls='Hessdiag', method=method, n=n, order=order, cplx=False)))
            if method in ('central', 'central2', 'forward', 'backward') and n <= 2:
                out.append(('e2e-hessian-%s-n%d-cplx' % (method, n), dict(kind='e2e', cls='Hessian', method=method, n=n, order=0, cplx=True)))
    # the stencil identities (symmetric fill included) also for n = 4 and 5: index bookkeeping that is right up to n = 3 only
    for n in ((4, 5) if tier != 'thorough' else (5,)):
        if True:
            for method in HMETHODS:
                out.append(('stencil-hessian-%s-n%d' % (method, n), dict(kind='stencil', cls='Hessian', method=method, n=n, order=0, cplx=False)))
    out.append(('length1-array', dict(kind='len1', cls='', method='', n=2, order=0, cplx=False)))
    return out


def quadratic(n, cplx=False):
    """-> f, names, Q (list of lists of Sym/SymC), c, d"""
    names = []

    def var(nm):
        if cplx:
            names.extend([nm + 'r', nm + 'i'])
            return sn.SymC(sn.real_var(nm + 'r'), sn.real_var(nm + 'i'))
        names.append(nm)
        return sn.real_var(nm)
    Q = [[None] * n for _ in range(n)]
    for i in range(n):
        for j in range(i, n):
            Q[i][j] = Q[j][i] = var('q%d%d' % (i, j))
    c = [var('c%d' % i) for i in range(n)]
    d = var('d0')

    def f(x, *a, **k):
        acc = d
        for i in range(n):
            acc = acc + c[i] * x[i]
            for j in range(n):
                acc = acc + (x[i] * x[j]) * Q[i][j] * 0.5
        return acc
    return f, names, Q, c, d


def run_job(job, kind, cls, method, n, order, cplx):
    if kind == 'stencil':
        return stencil(job, cls, method, n)
    if kind == 'e2e':
        return e2e(job, cls, method, n, order, cplx)
    return len1(job)


def stencil(job, cls, method, n):
    fd = cm.nd_mods()['fd']
    rule = (fd.LogHessianRule if cls == 'Hessian' else fd.LogHessdiagRule)(n=2, method=method, order=2)
    f, names, Q, c, d = quadratic(n)
    x = sn.real_vars('x', (n,))
    h = sn.real_vars('h', (n,))
    pos = [sn.lift(v) > 0 for v in cm.flat_list(h)]

    def harness():
        with tr.traced(), cm.quiet():
            return rule.diff(f, f(x), x, h)
    p = sn.run_single(harness, assumptions=pos)
    job.paths += 1
    if p.exc is not None:
        job.violation('raises', dict(key='C04:stencil:%s:%s:raises' % (cls, method), kind='stencil', exc=repr(p.exc)[:300]))
        return
    out = np.asarray(p.result)
    hs = [sn.lift(v) for v in cm.flat_list(h)]
    if cls == 'Hessian':
        if not job.confirm('stencil shape', out.shape == (n, n)):
            job.violation('shape', dict(key='C04:stencil:shape', kind='stencil', got=list(out.shape)))
            return
        for i in range(n):
            for j in range(n):
                v = sn.as_symc(out[i, j])
                div = hs[i] * hs[j]
                claim = z3.And(z3.simplify((sn.lift(v.re) - sn.lift(Q[i][j])) * div, som=True) == 0, sn.lift(v.im) * div == 0) \
                    if not sn._is_zero(v.im) else (z3.simplify(sn.lift(v.re) * div - sn.lift(Q[i][j]) * div, som=True) == 0)
                job.prove('stencil[%d,%d] == Q[%d,%d]' % (i, j, i, j), claim, pos,
                          dict(key='C04:stencil:%s:wrong-second-derivative' % method, kind='stencil', i=i, j=j))
                if j > i:
                    same = out[i, j] is out[j, i] or z3.is_true(z3.simplify(sn.lift(v.re) == sn.lift(sn.as_symc(out[j, i]).re)))
                    if not job.confirm('symmetric [%d,%d]' % (i, j), same):
                        job.violation('asymmetric', dict(key='C04:stencil:%s:asymmetric' % method, kind='stencil', i=i, j=j))
    else:
        if not job.confirm('stencil shape', out.shape == (n,)):
            job.violation('shape', dict(key='C04:stencil:shape', kind='stencil', got=list(out.shape)))
            return
        # Hessdiag difference quotients are in units of h_i^2 f''/2 ( * rule ); the modelled term: d2 * h^2 with d2 = 1/2 or 1
        for i in range(n):
            v = sn.as_symc(out[i])
            t = sn.lift(v.re)
            # quotient / h_i^2 must be a constant multiple (1/2 or 1) of Q[i,i] : extract the constant at Q=1,h=1
            sub = [(z3.Real(nm), z3.RealVal(0)) for nm in names] + [(z3.Real('x_%d' % k), z3.RealVal(0)) for k in range(n)] + \
                  [(z3.Real('h_%d' % k), z3.RealVal(1)) for k in range(n)]
            sub = [s for s in sub if str(s[0]) != 'q%d%d' % (i, i)] + [(z3.Real('q%d%d' % (i, i)), z3.RealVal(1))]
            kval = sn._const_value(z3.simplify(z3.substitute(t, *sub)))
            # one-sided quotients also carry the first-derivative term alpha*g_i*h_i (removed later by the rule)
            sub1 = [(z3.Real(nm), z3.RealVal(1 if nm == 'c%d' % i else 0)) for nm in names] + \
                   [(z3.Real('x_%d' % k), z3.RealVal(0)) for k in range(n)] + [(z3.Real('h_%d' % k), z3.RealVal(1)) for k in range(n)]
            aval = sn._const_value(z3.simplify(z3.substitute(t, *sub1)))
            if kval is None or kval == 0 or aval is None:
                job.violation('no-second-derivative', dict(key='C04:stencil:hessdiag:%s:no-second-derivative-term' % method, kind='stencil', i=i))
                continue
            one_sided = method in ('forward', 'backward')
            if not job.confirm('first-derivative term only for one-sided quotients', (aval != 0) == one_sided):
                job.violation('first-derivative-term', dict(key='C04:stencil:hessdiag:%s:unexpected-first-derivative-term' % method,
                                                            kind='stencil', i=i, alpha=str(aval)))
                continue
            g = sn.lift(c[i])
            xs = [sn.lift(v) for v in cm.flat_list(x)]
            for j2 in range(n):
                g = g + sn.lift(Q[i][j2]) * xs[j2]
            want = sn.ratval(kval) * sn.lift(Q[i][i]) * hs[i] * hs[i] + sn.ratval(aval) * g * hs[i]
            job.prove('hessdiag quotient[%d] == alpha*g*h + k*Q[%d,%d]*h^2' % (i, i, i), z3.simplify(t - want, som=True) == 0, pos,
                      dict(key='C04:stencil:hessdiag:%s:wrong-quotient' % method, kind='stencil', i=i))
    job.twin('steps positive satisfiable', pos)


def _gen(nd):
    return nd.MinStepGenerator(base_step=0.25, step_ratio=2.0, num_steps=4, step_nom=1.0)


XPTS = [0.5, -0.75, 1.25, 2.0]


def _run_cls(nd, cls, f, method, order, x, box):
    def harness():
        with tr.traced(), sn.abstract_division(products=True), cm.quiet():
            kw = dict(step=_gen(nd), method=method)
            if cls == 'Hessdiag':
                kw['order'] = order
            return getattr(nd, cls)(f, **kw)(x)
    ex = sn.Explorer(harness, assumptions=box, max_paths=300, timeout_ms=20000)
    return list(ex.paths()), ex


def e2e(job, cls, method, n, order, cplx):
    nd = cm.nd_mods()['nd']
    f, names, Q, c, d = quadratic(n, cplx)
    box = [z3.And(z3.Real(nm) >= -1, z3.Real(nm) <= 1) for nm in names]
    x = np.array(XPTS[:n])
    paths, ex = _run_cls(nd, cls, f, method, order, x, box)
    job.absorb_explorer(ex)
    tol = sn.ratval(TOL)
    for p in paths:
        if p.exc is not None:
            job.violation('raises', dict(key='C04:e2e:%s:%s:raises:%s' % (cls, method, type(p.exc).__name__), kind='e2e',
                                         exc=repr(p.exc)[:300]))
            continue
        H = np.asarray(p.result)
        want_shape = (n, n) if cls == 'Hessian' else (n,)
        if not job.confirm('shape', H.shape == want_shape):
            job.violation('shape', dict(key='C04:e2e:%s:shape' % cls, kind='e2e', got=list(H.shape), want=list(want_shape)))
            continue
        conds = p.conds()
        for idx in np.ndindex(want_shape):
            i, j = (idx[0], idx[1]) if cls == 'Hessian' else (idx[0], idx[0])
            v, q = sn.as_symc(H[idx]), sn.as_symc(Q[i][j])
            dr, di = sn.lift(v.re) - sn.lift(q.re), sn.lift(v.im) - sn.lift(q.im)
            job.prove('%s%s == Q[%d,%d]' % (cls, list(idx), i, j), z3.And(dr <= tol, -dr <= tol, di <= tol, -di <= tol), conds,
                      dict(key='C04:e2e:%s:%s:wrong-entry' % (cls, method), kind='e2e', idx=list(idx), names=names))
            if cls == 'Hessian' and j > i:
                w = sn.as_symc(H[j, i])
                job.prove('H[%d,%d] == H[%d,%d] exactly' % (i, j, j, i),
                          z3.And(sn.lift(v.re) == sn.lift(w.re), sn.lift(v.im) == sn.lift(w.im)), conds,
                          dict(key='C04:e2e:Hessian:%s:asymmetric' % method, kind='e2e', idx=[i, j]))
    # Hessdiag agrees with diag(Hessian)
    if cls == 'Hessdiag' and order == 2 and paths and paths[0].exc is None and method != 'central2':
        ph, exh = _run_cls(nd, 'Hessian', f, method, 0, x, box)
        job.absorb_explorer(exh)
        for q in ph:
            if q.exc is not None:
                continue
            Hh = np.asarray(q.result)
            Hd = np.asarray(paths[0].result)
            for i in range(n):
                a, b = sn.as_symc(Hd[i]), sn.as_symc(Hh[i, i])
                dd = sn.lift(a.re) - sn.lift(b.re)
                job.prove('Hessdiag[%d] == Hessian[%d,%d]' % (i, i, i), z3.And(dd <= 2 * tol, -dd <= 2 * tol), q.conds() + paths[0].conds(),
                          dict(key='C04:e2e:hessdiag-differs-from-hessian-diagonal', kind='e2e', idx=[i]))
            break
    job.twin('box', box)


def len1_failures():
    nd = cm.nd_mods()['nd']
    f1 = lambda x: np.array([x[0] ** 2 * x[1] + x[1] ** 3])  # noqa
    f0 = lambda x: x[0] ** 2 * x[1] + x[1] ** 3  # noqa
    bad = []
    for cls in (nd.Hessian, nd.Hessdiag):
        for m in HMETHODS:
            try:
                with cm.quiet():
                    a = cls(f1, method=m)([1., 2.])
                    b = cls(f0, method=m)([1., 2.])
                if np.shape(a) != np.shape(b) or not np.allclose(a, b, atol=1e-5):
                    bad.append('%s(%s): length-1-array result %r differs from scalar-function result %r' % (cls.__name__, m, a, b))
            except Exception as e:  # noqa
                bad.append('%s(method=%s) on a function returning a length-1 array raises %s: %s' % (cls.__name__, m, type(e).__name__, e))
    return bad


def len1(job):
    bad = len1_failures()
    if not job.confirm('length-1-array function accepted by Hessian and Hessdiag (12 concrete runs)', not bad):
        job.violation('length1', dict(key='C04:length1-array', kind='len1', detail=bad[0]))


# --------------------------------------------------------------------------
def replay(cex):
    nd = cm.nd_mods()['nd']
    cfg = cex['config']
    kind = cex.get('kind')
    if kind == 'len1':
        bad = len1_failures()
        return (True, bad[0]) if bad else (False, 'accepted')
    cls, method, n, order, cplx = cfg['cls'], cfg['method'], cfg['n'], cfg['order'], cfg['cplx']
    rng = np.random.default_rng(3)
    for trial in range(4):
        Qm = rng.uniform(-1, 1, size=(n, n))
        Qm = Qm + np.triu(Qm, 1).T - np.tril(Qm, -1)
        Qm = np.triu(Qm) + np.triu(Qm, 1).T
        if cplx:
            Qi = rng.uniform(-1, 1, size=(n, n))
            Qi = np.triu(Qi) + np.triu(Qi, 1).T
            Qm = Qm + 1j * Qi
        cv = rng.uniform(-1, 1, size=n)
        f = lambda x: 0.2 + cv @ x + 0.5 * x @ Qm @ x  # noqa
        x = np.array(XPTS[:n]) + (0.1 * trial)
        try:
            with cm.quiet():
                kw = dict(method=method)
                if cls == 'Hessdiag':
                    kw['order'] = order or 2
                H = getattr(nd, cls)(f, **kw)(x)
        except Exception as e:  # noqa
            return True, '%s(method=%s) on a quadratic in %d variables raises %s: %s' % (cls, method, n, type(e).__name__, e)
        want = Qm if cls == 'Hessian' else np.diag(Qm)
        if np.shape(H) != np.shape(want):
            return True, 'shape %s, expected %s' % (np.shape(H), np.shape(want))
        if cls == 'Hessian' and not np.array_equal(H, H.T):
            return True, 'Hessian(method=%s) is not exactly symmetric: %r' % (method, H - H.T)
        if not np.allclose(H, want, rtol=1e-5, atol=1e-6):
            return True, '%s(method=%s) = %r for the quadratic with matrix %r' % (cls, method, H, want)
    return False, 'exact and symmetric on random quadratics'
