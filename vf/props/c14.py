"""C14 -- streaming epsilon algorithms: EpsAlg = Shanks table, Dea total.

EpsAlg (real class, values carried as numerator/denominator polynomial pairs):
  after term m the returned value equals the Shanks/Hankel-determinant entry
  e_k(S_{m-2k}), k = m//2, built independently; for s_n = L + sum_{i<=k} a_i q_i^n the value after
  2k+1 terms equals L for all L, a_i, q_i (polynomial identities, z3) -- on the path where no
  table difference is treated as vanishing (|delta| <= 1e-60 not taken).

Dea (real class): whole-history symbolic exploration does not finish (DESIGN.md), so the
allocator-style decomposition is used:
  1. one real ``Dea.__call__`` from an ARBITRARY table (fresh symbols, uninterpreted reciprocal)
     for every control state (n, min(nres,3)); all comparisons fork; per feasible path: no
     exception, every index used stays inside the table / the res3la tail is only touched through
     its own view, abserr >= 5*eps*|result| (n >= 2 branch), and the control outcome (n', nres')
  2. exhaustive search of the finite control graph from (0,0): invariant n' <= limexp-1 on every
     reachable edge  ==>  sequences of ANY length are accepted for that limexp
  3. violating edges are concretised on the real class with sequence families and reported only if
     they reproduce (IndexError / table overrun / zero error estimate)
  4. first three results agree with dea3 (outside its guards).
"""
from __future__ import annotations

import itertools
from fractions import Fraction

import numpy as np
import z3

from .. import symnum as sn
from .. import tracing as tr
from . import common as cm

ID = 'C14'

META = {
    'title': 'EpsAlg equals the Shanks table; Dea accepts any length',
    'level': 'other',
    'explanation': (
        'Solver-based bounded checking of the real EpsAlg and Dea classes. EpsAlg: executed on symbolic terms (rational '
        'functions as num/den pairs); z3 decides the polynomial identities "value after term m == Hankel-determinant Shanks '
        'entry" and "limit + k geometric transients is recovered from 2k+1 terms". Dea: one real __call__ from an arbitrary '
        'symbolic table per control state, all comparison outcomes explored with z3 deciding feasibility (QF_UFLRA), index '
        'safety and the 5*eps*|result| floor proven per path, then exhaustive search of the finite control graph '
        '(an over-approximation of all histories of any length).'),
    'functions_encoded': ['numdifftools.extrapolation.EpsAlg.__call__', 'numdifftools.extrapolation.Dea.__init__/limexp/'
                          '__call__/_dea/_shift_table/_update_res3la', 'numdifftools.extrapolation.dea3 (comparison)'],
    'bounds': {'quick': 'EpsAlg k<=2 transients (5 terms), Shanks table up to 5 terms; Dea limexp in {3,4,5,7}',
               'thorough': 'EpsAlg as quick; Dea limexp 3, 4, 5, 6, 7, 9'},
    'outside_claim': ['EpsAlg on the degenerate branch (a vanishing table difference) and beyond k=2 (k=3 does not finish: > 25 min per obligation)',
                      'Dea limexp > 9 (7 quick); agreement of Dea with the epsilon table beyond limexp 5 / on paths where a guard fired; finiteness in IEEE arithmetic'],
    'stubs': ['module global np -> symbolic numpy proxy', 'builtin max -> merged symbolic max (If term)',
              'division by a symbolic table difference -> uninterpreted reciprocal (sound over-approximation of control flow)',
              'Dea.epstab replaced by an index-recording object array of fresh symbols (arbitrary table)',
              'Dea-vs-epsilon-table job: the regulariser _HUGE is an infinite value (1/(x-_HUGE) = 0); control decisions follow a rational shadow run'],
    'assumptions': ['exact real arithmetic', 'Dea control graph: table contents arbitrary at every call (over-approximation)'],
    'timeout_ms': {'quick': 60000, 'thorough': 120000},
}


def jobs(tier, seed):
    th = tier == 'thorough'
    out = []
    # k = 3 (7 symbolic terms, 4x4 Hankel determinants) was tried for the thorough tier: each obligation ran > 25 min
    for k in (1, 2):
        out.append(('epsalg-transients-k%d' % k, dict(kind='eps_geo', k=k, limexp=0)))
    out.append(('epsalg-shanks-table', dict(kind='eps_shanks', k=2, limexp=0)))
    for lim in ((3, 4, 5, 6, 7, 9) if th else (3, 4, 5, 7)):
        # every control state that satisfies the invariant n <= L-1, L = the table size (an even limexp is rounded up to the
        # next odd number); reachability is decided in postprocess
        for n in range(0, 2 * (lim // 2) + 1):
            for nr in range(0, 4):
                if (n < 3 and nr > n) and not (n <= 2):
                    continue
                out.append(('dea-limexp%d-n%d-nres%d' % (lim, n, nr), dict(kind='dea', k=n * 10 + nr, limexp=lim)))
    out.append(('dea-first-three', dict(kind='dea3cmp', k=0, limexp=5)))
    for lim, nterms in ((3, 7), (5, 9)):
        for fam in range(len(SHANKS_FAMILIES)):
            out.append(('dea-shanks-limexp%d-f%d' % (lim, fam), dict(kind='dea_shanks', k=nterms * 10 + fam, limexp=lim)))
    return out


def run_job(job, kind, k, limexp):
    ex = cm.nd_mods()['ex']
    if kind == 'eps_geo':
        return eps_geo(job, ex, k)
    if kind == 'eps_shanks':
        return eps_shanks(job, ex, k)
    if kind == 'dea':
        return dea_state(job, ex, limexp, k // 10, k % 10)
    if kind == 'dea_shanks':
        return dea_shanks(job, ex, limexp, k // 10, k % 10)
    return dea_first_three(job, ex)


# --------------------------------------------------------------------------
# EpsAlg
# --------------------------------------------------------------------------
def _run_epsalg(ex, terms):
    sn.SymQ.NONZERO.clear()
    sn.SymQ.ABS_SEEN.clear()
    sn.SymQ.ABS_THRESHOLDS.clear()
    outs = []

    def harness():
        with tr.traced():
            e = ex.EpsAlg()
            for t in terms:
                outs.append(e(t))
            return outs
    p = sn.run_single(harness)
    if p.exc is not None:
        raise p.exc
    return list(outs), list(sn.SymQ.ABS_SEEN)


def eps_geo(job, ex, k):
    L = z3.Real('L')
    a = [z3.Real('a%d' % i) for i in range(k)]
    q = [z3.Real('q%d' % i) for i in range(k)]
    terms = []
    for n in range(2 * k + 1):
        s = L
        for i in range(k):
            s = s + a[i] * sn._pow_term(q[i], n)
        terms.append(sn.SymQ(s))
    outs, deltas = _run_epsalg(ex, terms)
    job.paths += 1
    final = sn.SymQ.of(outs[-1])
    # non-degeneracy: a_i != 0, q_i != 0, 1, pairwise distinct  => the table differences do not vanish
    nd = [ai != 0 for ai in a] + [qi != 0 for qi in q] + [qi != 1 for qi in q] + \
         [q[i] != q[j] for i in range(k) for j in range(i)]
    job.prove('limit recovered from %d terms (k=%d)' % (2 * k + 1, k), final.eq_term(sn.SymQ(L)), nd,
              dict(key='C14:EpsAlg:limit-not-recovered', kind='eps', k=k))
    job.confirm('assumed-nondegenerate-differences', len(deltas) > 0)
    # "as long as no table difference vanishes": the code may only treat differences below 1e-30 (absolute) as vanishing
    thr = max(sn.SymQ.ABS_THRESHOLDS) if sn.SymQ.ABS_THRESHOLDS else 0.0
    if not job.confirm('degenerate-difference threshold <= 1e-30', thr <= 1e-30):
        job.violation('threshold', dict(key='C14:EpsAlg:nonvanishing-difference-treated-as-zero', kind='eps_threshold', threshold=thr))
    job.twin('non-degenerate parameters exist', nd)
    # the value after 2k terms must NOT already be L in general (the check can see a shifted index)
    prev = sn.SymQ.of(outs[-2])
    job.twin('2k terms are not enough', nd + [z3.Not(prev.eq_term(sn.SymQ(L))), prev.d != 0])
    # trace validation with floats
    rng = np.random.default_rng(k)
    e = ex.EpsAlg()
    Lv, av, qv = 0.7, rng.uniform(0.5, 1.5, size=k), rng.uniform(0.2, 0.8, size=k)
    for n in range(2 * k + 1):
        r = e(Lv + float(np.sum(av * qv ** n)))
    asg = {'L': Fraction(Lv)}
    asg.update({'a%d' % i: Fraction(float(av[i])) for i in range(k)})
    asg.update({'q%d' % i: Fraction(float(qv[i])) for i in range(k)})
    num = sn.evaluate(sn.Sym(final.n), asg)
    den = sn.evaluate(sn.Sym(final.d), asg)
    if abs(float(num / den) - r) > 1e-6:
        job.error('EpsAlg trace validation mismatch %r vs %r' % (float(num / den), r))
    job.validated += 1


def _det(M):
    n = len(M)
    if n == 0:
        return z3.RealVal(1)
    if n == 1:
        return M[0][0]
    tot = None
    for c in range(n):
        minor = [row[:c] + row[c + 1:] for row in M[1:]]
        t = M[0][c] * _det(minor)
        if c % 2:
            t = -t
        tot = t if tot is None else tot + t
    return tot


def eps_shanks(job, ex, kmax):
    nterms = 2 * kmax + 1
    s = [z3.Real('s%d' % i) for i in range(nterms)]
    outs, deltas = _run_epsalg(ex, [sn.SymQ(v) for v in s])
    job.paths += 1
    for m in range(nterms):
        k = m // 2
        n0 = m - 2 * k
        num = _det([[s[n0 + i + j] for j in range(k + 1)] for i in range(k + 1)])
        d2 = lambda t: s[t + 2] - 2 * s[t + 1] + s[t]  # noqa
        den = _det([[d2(n0 + i + j) for j in range(k)] for i in range(k)])
        want = sn.SymQ(sn._som(num), sn._som(den))
        got = sn.SymQ.of(outs[m])
        job.prove('value after term %d is the Shanks entry e_%d(S_%d)' % (m, k, n0), got.eq_term(want), [],
                  dict(key='C14:EpsAlg:not-shanks-entry', kind='eps_table', m=m))
    job.confirm('assumed-nondegenerate-differences', len(deltas) > 0)


# --------------------------------------------------------------------------
# Dea: one call from an arbitrary table
# --------------------------------------------------------------------------
class Tab(np.ndarray):
    """object array that records the absolute element indices of every access"""
    root_addr = 0
    root_size = 0
    log = None
    is_root = True

    def __array_finalize__(self, obj):
        if obj is not None and isinstance(obj, Tab):
            self.root_addr, self.root_size, self.log = obj.root_addr, obj.root_size, obj.log
            self.is_root = False

    def _abs(self, key):
        off = (self.__array_interface__['data'][0] - self.root_addr) // self.itemsize
        n = self.shape[0] if self.ndim else 1
        if isinstance(key, (int, np.integer)):
            k = int(key)
            if k < -n or k >= n:
                return None, True
            return [off + (k % n)], False
        if isinstance(key, slice):
            idx = list(range(n))[key]
            over = False
            for b in (key.start, key.stop):
                if b is not None and (b > n or b < -n):
                    over = True
            return [off + i for i in idx], over
        return [], False

    def __getitem__(self, key):
        if self.log is not None and self.ndim == 1:
            idx, over = self._abs(key)
            self.log.append(('r', self.is_root, idx, over, repr(key)))
        return np.ndarray.__getitem__(self, key)

    def __setitem__(self, key, val):
        if self.log is not None and self.ndim == 1:
            idx, over = self._abs(key)
            self.log.append(('w', self.is_root, idx, over, repr(key)))
        np.ndarray.__setitem__(self, key, val)

    def __array_ufunc__(self, uf, method, *ins, out=None, **kw):
        ins = [sn.SymArr(np.asarray(a)) if isinstance(a, Tab) else a for a in ins]
        return getattr(uf, method)(*ins, **kw)


def make_tab(size, prefix):
    base = np.empty(size, dtype=object)
    for i in range(size):
        base[i] = sn.real_var('%s%d' % (prefix, i))
    t = base.view(Tab)
    t.root_addr = t.__array_interface__['data'][0]
    t.root_size = size
    t.log = []
    t.is_root = True
    return t


def one_call(ex, limexp, n, nres):
    """all feasible paths of one real Dea.__call__ from state (n, nres) with an arbitrary table"""
    results = []
    s_new = sn.real_var('s_new')

    def harness():
        del sn.DENOMINATORS[:]
        with tr.traced(), sn.abstract_division():
            d = ex.Dea(limexp=limexp)
            tab = make_tab(len(d.epstab), 't')
            d.epstab = tab
            d._n = n
            d._nres = nres
            shifted = []
            orig_shift = d._shift_table

            def shift(*a, **k):
                shifted.append(True)
                return orig_shift(*a, **k)
            d._shift_table = shift
            try:
                r = d(s_new)
                exc = None
            except (IndexError, ValueError, TypeError, ZeroDivisionError) as e:
                r, exc = None, e
            return dict(r=r, exc=exc, n_out=d._n, nres_out=d._nres, log=list(tab.log), shifted=bool(shifted),
                        size=len(tab), limexp=d.limexp, denoms=list(sn.DENOMINATORS))
    explorer = sn.Explorer(harness, max_paths=20000, timeout_ms=20000, catch=())
    for p in explorer.paths():
        results.append(p)
    return results, explorer


def classify(path_result, limexp_eff):
    """-> list of bad-event strings for one path"""
    res = path_result
    bad = []
    tail_start = limexp_eff + 2
    if res['exc'] is not None:
        bad.append('raises-%s' % type(res['exc']).__name__)
    for (rw, is_root, idx, over, key) in res['log']:
        if idx is None:
            bad.append('index-out-of-array')
            continue
        if over:
            bad.append('slice-beyond-array')
        if is_root and key != 'slice(-3, None, None)':
            if any(i >= tail_start for i in idx):
                bad.append('table-code-touches-res3la-tail(%s %s)' % (rw, key))
    return bad


def dea_state(job, ex, limexp, n, nr):
    """all feasible outcomes of one real call from control state (n, nr) with an arbitrary table"""
    import json
    eps5 = sn.ratval(Fraction(5, 2 ** 52))
    d0 = ex.Dea(limexp=limexp)
    L = 2 * (limexp // 2) + 1         # table size for the requested limexp (even values are rounded up)
    size = len(d0.epstab)
    job.confirm('table-size', size == L + 5)
    paths, explorer = one_call(ex, limexp, n, nr)
    job.absorb_explorer(explorer)
    outs = set()
    keys = {}
    for p in paths:
        res = p.result
        sig = 'shifted' if res['shifted'] else ('no-shift' if n >= 2 else 'startup')
        bads = classify(res, L)
        n_out, nr_out = res['n_out'], min(res['nres_out'], 3)
        if res['exc'] is None:
            if n_out > L - 1:
                bads.append('n_out>limexp-1')
            else:
                outs.add((n_out, nr_out))
            result, abserr = res['r']
            third_on = nr >= 1 or n >= 2
            if third_on and sn.is_sym(abserr):
                rt, at = sn.lift(result), sn.lift(abserr)
                job.prove('abserr>=5eps|result| n=%d nres=%d' % (n, nr),
                          z3.And(at >= eps5 * rt, at >= -eps5 * rt), p.conds(),
                          dict(key='C14:Dea:abserr-floor:n=%d' % n if n < 2 else 'C14:Dea:abserr-floor',
                               kind='dea_floor', limexp=limexp, n=n, nres=nr, state=[n, nr]))
        # "returns finite values for finite input": no division by a table difference that can be zero on this path
        for dterm in res.get('denoms', []):
            job.prove('denominator != 0 n=%d nres=%d' % (n, nr), dterm != 0, p.conds(),
                      dict(key='C14:Dea:division-by-zero', kind='dea_div', limexp=limexp, n=n, nres=nr, state=[n, nr]))
        job.confirm('path-safe n=%d nres=%d' % (n, nr), not bads)
        for b in bads:
            site = b.split('(')[0]
            keys.setdefault('C14:Dea:%s:%s' % (site, sig), b)
    for key, b in sorted(keys.items()):
        job.violation('dea-edge', dict(key=key, kind='dea_edge', limexp=limexp, state=[n, nr], detail=b))
    job.notes.append('EDGES ' + json.dumps({'limexp': limexp, 'state': [n, nr], 'outs': sorted(outs), 'paths': len(paths)}))


def postprocess(results):
    """control-graph reachability: counterexamples from control states that no history reaches are dropped;
    every state reachable from (0,0) must have been explored."""
    import json
    graphs = {}
    for r in results:
        for note in r['notes']:
            if note.startswith('EDGES '):
                e = json.loads(note[6:])
                graphs.setdefault(e['limexp'], {})[tuple(e['state'])] = [tuple(o) for o in e['outs']]
    reach = {}
    errors = []
    for lim, g in graphs.items():
        seen, stack = set(), [(0, 0)]
        while stack:
            st = stack.pop()
            if st in seen:
                continue
            seen.add(st)
            if st not in g:
                errors.append('control state %s of limexp=%d is reachable but was not explored' % (st, lim))
                continue
            stack.extend(g[st])
        reach[lim] = seen
    for r in results:
        keep = []
        for c in r['cex']:
            if c.get('kind') in ('dea_edge', 'dea_floor', 'dea_div') and tuple(c['state']) not in reach.get(c['limexp'], ()):
                continue
            keep.append(c)
        r['cex'] = keep
        r['notes'] = [n for n in r['notes'] if not n.startswith('EDGES ')]
    if results:
        results[0]['errors'].extend(errors)
        results[0]['notes'].append('Dea control graphs: ' + ', '.join(
            'limexp=%d: %d reachable of %d explored states' % (lim, len(reach[lim]), len(graphs[lim])) for lim in sorted(graphs)))
    return results


def dea_first_three(job, ex):
    s = [sn.real_var('s%d' % i) for i in range(3)]

    def h_dea():
        with tr.traced(), sn.abstract_division():
            d = ex.Dea(limexp=5)
            d.epstab = sn.SymArr(np.array([0.0] * len(d.epstab), dtype=object))
            return [d(v) for v in s]
    explorer = sn.Explorer(h_dea, max_paths=200, timeout_ms=20000)
    paths = list(explorer.paths())
    job.absorb_explorer(explorer)

    def h_dea3():
        with tr.traced(), sn.abstract_division():
            return ex.dea3(s[0], s[1], s[2])
    r3, e3 = sn.run_single(h_dea3).result
    huge = sn.ratval(float(np.finfo(float).max))
    for p in paths:
        if p.exc is not None:
            job.violation('dea-raises', dict(key='C14:Dea:first-three-raise', kind='dea3cmp', exc=repr(p.exc)))
            continue
        outs = p.result
        job.prove('first term returned as is', sn.lift(outs[0][0]) == s[0].t, p.conds(), dict(key='C14:Dea:first-term', kind='dea3cmp'))
        job.prove('second term returned as is', sn.lift(outs[1][0]) == s[1].t, p.conds(), dict(key='C14:Dea:second-term', kind='dea3cmp'))
        # third term: the documented three-term rule, restated here from the inputs (it is dea3's): with
        #   sss = 1/(s2-s1) - 1/(s1-s0)
        # the raw term s2 is returned when a difference is at rounding level or |sss*s1| <= 1e-4 (irregular behaviour),
        # otherwise s1 + 1/sss.  Reciprocals are uninterpreted (the same rc terms on both sides); Dea's regulariser
        # 1/(s1 - HUGE) is assumed to vanish (|.| < 1e-307 in reality).
        rc = sn.uninterpreted('recip')
        hyp = [rc(s[1].t - huge) == 0]
        res = sn.lift(outs[2][0])
        d_new, d_old = s[2].t - s[1].t, s[1].t - s[0].t
        eps = sn.ratval(float(np.finfo(float).eps))
        ab = cm.zabs
        mx = lambda a, b: z3.If(ab(a) >= ab(b), ab(a), ab(b))  # noqa
        sss = rc(d_new) - rc(d_old)
        fallback = z3.Or(ab(d_new) <= eps * mx(s[2].t, s[1].t), ab(d_old) <= eps * mx(s[1].t, s[0].t), ab(sss * s[1].t) <= sn.ratval(1e-4))
        spec = z3.If(fallback, s[2].t, s[1].t + rc(sss))
        # magnitudes far below the overflow threshold (otherwise Dea's comparison with its initial error HUGE decides)
        big = sn.ratval(1e100)
        hyp += [ab(v.t) <= big for v in s] + [ab(rc(sss)) <= big]
        job.prove('third term follows the documented three-term rule (same guards as dea3)', res == spec, p.conds() + hyp,
                  dict(key='C14:Dea:third-term-differs-from-dea3', kind='dea3cmp'))
    # (the same rule is proven for the real dea3 by the C13 obligations 'documented guards decide between Shanks value and
    # fallback', so "agrees with dea3" is closed on both sides)


# --------------------------------------------------------------------------
# Dea outside its guards returns entries of the epsilon (Shanks) table -- also after the table is full
# --------------------------------------------------------------------------
class _Defer(Exception):
    pass


def _deferring(fn):
    def op(self, o):
        if isinstance(o, np.ndarray) and o.ndim:
            return NotImplemented   # numpy applies the operator elementwise (object array)
        if isinstance(o, CInf):
            return NotImplemented   # CInf's reflected operator decides
        return fn(self, o)
    return op


class CInf:
    """stand-in for the regulariser _HUGE (1.8e308) of Dea: c * OMEGA with OMEGA larger than every finite value, so
    1/(x - _HUGE) is 0 (in float64 it is below 5.6e-309, i.e. absorbed by rounding unless the other reciprocals are below
    1e-292) while OMEGA * eps < OMEGA still holds."""
    __slots__ = ('c',)

    def __init__(self, c=1):
        self.c = Fraction(c)

    def __neg__(self):
        return CInf(-self.c)

    def __abs__(self):
        return CInf(abs(self.c))

    def __sub__(self, o):
        if isinstance(o, CInf):
            raise sn.Unsupported('inf - inf')
        return self
    __add__ = __radd__ = __sub__

    def __rsub__(self, o):
        return -self

    def __rtruediv__(self, o):
        return CQ.of(0.0)

    def __mul__(self, o):
        if isinstance(o, (CInf, CQ)):
            raise sn.Unsupported('inf * symbolic')
        return CInf(self.c * Fraction(float(o)))
    __rmul__ = __mul__

    def __lt__(self, o):
        return _cv(self) < _cv(o)

    def __le__(self, o):
        return _cv(self) <= _cv(o)

    def __gt__(self, o):
        return _cv(self) > _cv(o)

    def __ge__(self, o):
        return _cv(self) >= _cv(o)


def _cv(o):
    """ordering key: (coefficient of OMEGA, finite part)"""
    if isinstance(o, CInf):
        return (o.c, Fraction(0))
    if isinstance(o, CQ):
        return (Fraction(0), o.v)
    return (Fraction(0), Fraction(float(o)))


class CQ:
    """value of the Dea run: exact rational function of the symbolic terms (SymQ) plus a concrete rational shadow.
    Control decisions (comparisons) follow the shadow -- a concolic run; every value the real code computes is carried
    symbolically, and the obligations are identities over ALL terms s_i (they do not depend on the path condition)."""
    __slots__ = ('q', 'v')

    def __init__(self, q, v):
        self.q, self.v = q, v

    @staticmethod
    def of(o):
        if isinstance(o, CQ):
            return o
        if isinstance(o, np.ndarray):
            raise _Defer()
        f = Fraction(float(o))
        return CQ(sn.SymQ(sn.ratval(f)), f)

    @_deferring
    def __add__(self, o):
        o = CQ.of(o)
        return CQ(self.q + o.q, self.v + o.v)
    __radd__ = __add__

    @_deferring
    def __sub__(self, o):
        o = CQ.of(o)
        return CQ(self.q - o.q, self.v - o.v)

    @_deferring
    def __rsub__(self, o):
        return CQ.of(o) - self

    @_deferring
    def __mul__(self, o):
        o = CQ.of(o)
        return CQ(self.q * o.q, self.v * o.v)
    __rmul__ = __mul__

    @_deferring
    def __truediv__(self, o):
        o = CQ.of(o)
        return CQ(self.q / o.q, self.v / o.v)

    @_deferring
    def __rtruediv__(self, o):
        return CQ.of(o) / self

    def __neg__(self):
        return CQ(-self.q, -self.v)

    def __abs__(self):
        return self if self.v >= 0 else -self

    def __lt__(self, o):
        return _cv(self) < _cv(o)

    def __le__(self, o):
        return _cv(self) <= _cv(o)

    def __gt__(self, o):
        return _cv(self) > _cv(o)

    def __ge__(self, o):
        return _cv(self) >= _cv(o)


def _alt_series(i):
    return sum(Fraction((-1) ** j, j + 1) for j in range(i + 1))


SHANKS_FAMILIES = [
    ('log2-partial-sums', _alt_series),
    ('three-transients', lambda i: Fraction(1) + Fraction(1, 2) ** i + Fraction(3, 10) * Fraction(-7, 10) ** i + Fraction(1, 5) * Fraction(1, 3) ** i
     + Fraction(1, 7) * Fraction(-2, 5) ** i),
    ('leibniz+perturbed', lambda i: sum(Fraction((-1) ** j, 2 * j + 1) for j in range(i + 1)) + Fraction(1, 50 * (i + 1) ** 2)),
    ('negative-slow', lambda i: -3 + Fraction(19, 20) ** i + Fraction(1, 4) * Fraction(-3, 5) ** i + Fraction(1, 9) * Fraction(2, 7) ** i),
]


def _shanks_entry(s, k, n0):
    """Hankel-determinant form of e_k(S_n0) = eps_{2k}^{(n0)} (independent of the recursion), as SymQ"""
    num = _det([[s[n0 + i + j] for j in range(k + 1)] for i in range(k + 1)])
    d2 = lambda t: s[t + 2] - 2 * s[t + 1] + s[t]  # noqa
    den = _det([[d2(n0 + i + j) for j in range(k)] for i in range(k)])
    return sn.SymQ(sn._som(num), sn._som(den))


def _shanks_value(vals, k, n0):
    num = _fdet([[vals[n0 + i + j] for j in range(k + 1)] for i in range(k + 1)])
    d2 = lambda t: vals[t + 2] - 2 * vals[t + 1] + vals[t]  # noqa
    den = _fdet([[d2(n0 + i + j) for j in range(k)] for i in range(k)])
    return None if den == 0 else Fraction(num) / Fraction(den)


def dea_shanks(job, ex, limexp, nterms, fam):
    """Real Dea on symbolic terms s_0..s_{nterms-1}; the control path is the one the rational family takes (no guard fires
    on it, checked).  Proven for ALL s: the value returned after term m is the Shanks entry e_k(S_{m-2k}) for the k the
    run selected, 1 <= k <= (limexp-1)/2, m-2k >= 0 -- in particular it only involves the last 2k+1 <= limexp terms, also
    after the table was shifted (m >= limexp)."""
    name, f = SHANKS_FAMILIES[fam]
    vals = [Fraction(f(i)) for i in range(nterms)]
    syms = [z3.Real('s%d' % i) for i in range(nterms)]
    d = ex.Dea(limexp=limexp)
    L = d.limexp
    d.epstab = np.array([CQ.of(0.0) for _ in range(len(d.epstab))], dtype=object)
    job.paths += 1
    guard_free = 0
    for m in range(nterms):
        try:
            saved = ex.__dict__['_HUGE']
            ex.__dict__['_HUGE'] = CInf()
            try:
                r, e = d(CQ(sn.SymQ(syms[m]), vals[m]))
            finally:
                ex.__dict__['_HUGE'] = saved
        except Exception as exc:  # noqa
            job.violation('dea-raises', dict(key='C14:Dea:raises-on-regular-sequence:%s' % type(exc).__name__, kind='dea_shanks',
                                             family=fam, limexp=limexp, nterms=nterms, exc=repr(exc)[:200]))
            return
        if d._n != min(m + 1, L - 1):
            # a guard (convergence / irregular behaviour) fired on this family: the statement is about the regular path only
            job.notes.append("family %s: guard fired at term %d (n=%d), later terms not compared" % (name, m, d._n))
            break
        if m < 2:
            job.prove('term %d returned as is' % m, sn.SymQ.of(r.q).eq_term(sn.SymQ(syms[m])), [],
                      dict(key='C14:Dea:early-term', kind='dea_shanks', family=fam, limexp=limexp, nterms=nterms, m=m))
            continue
        guard_free += 1
        kmax = min(m, L - 1) // 2
        # which entry of the new diagonal did the run select?  (decided by the shadow; proven symbolically below)
        sel = [k for k in range(1, kmax + 1) if _shanks_value(vals, k, m - 2 * k) == r.v]
        if not sel:
            job.violation('dea-not-shanks', dict(key='C14:Dea:result-not-in-epsilon-table', kind='dea_shanks', family=fam,
                                                  limexp=limexp, nterms=nterms, m=m,
                                                  detail='value after term %d is none of e_k(S_(m-2k)), k=1..%d' % (m, kmax)))
            continue
        k = sel[-1]
        want = _shanks_entry(syms, k, m - 2 * k)
        job.prove('value after term %d == e_%d(S_%d) for all terms (limexp %d)' % (m, k, m - 2 * k, L),
                  sn.SymQ.of(r.q).eq_term(want), [],
                  dict(key='C14:Dea:result-not-in-epsilon-table', kind='dea_shanks', family=fam, limexp=limexp, nterms=nterms, m=m))
    job.confirm('regular path reached beyond the table size', guard_free >= 1)
    job.validated += 1

# --------------------------------------------------------------------------
# concretisation / replay on the real class
# --------------------------------------------------------------------------
def families(seed=0):
    rng = np.random.default_rng(seed)
    fams = {
        'geometric-half': lambda i: 1 + 2.0 ** -i,
        'constant': lambda i: 1.0,
        'geometric-0.9': lambda i: 2 - 0.9 ** i,
        'alternating': lambda i: 1 + (-0.5) ** i,
        'two-transients': lambda i: 1 + 0.5 ** i + 0.3 * (-0.7) ** i,
        'harmonic-partial': lambda i: float(sum(1.0 / (j * j) for j in range(1, i + 2))),
        'zeros': lambda i: 0.0,
        'zeros-between': lambda i: [1.0, 0.0, 0.0, 1.0, 0.0, 0.5, 0.25, 0.0, 0.0, 2.0][i % 10],
        'leading-zeros': lambda i: 0.0 if i < 2 else 1.0 + 0.5 ** i,
        'negative-geometric': lambda i: -1 - 2.0 ** -i,
        'negative-slow': lambda i: -3 + 0.95 ** i,
        'negative-alternating': lambda i: -2 + (-0.6) ** i,
        'linear': lambda i: float(i),
    }
    noise = rng.normal(size=400)
    fams['random'] = lambda i: float(noise[i])
    fams['geo+noise'] = lambda i: 1 + 0.5 ** i + 1e-9 * float(noise[i])
    return fams


def concrete_failures(limexp, length=200):
    """run the real Dea on the families; -> {kind: (family, term index, detail)}"""
    ex = cm.nd_mods()['ex']
    eps = np.finfo(float).eps
    out = {}
    for name, f in families().items():
        d = ex.Dea(limexp=limexp)
        L = 2 * (limexp // 2) + 1
        tail0 = None
        for i in range(length):
            try:
                with cm.quiet(), np.errstate(all='ignore'):
                    r, e = d(f(i))
            except Exception as exc:  # noqa
                out.setdefault('raises-%s' % type(exc).__name__, (name, i, '%s: %s' % (type(exc).__name__, exc)))
                break
            if d._n > L - 1:
                out.setdefault('n_out>limexp-1', (name, i, '_n=%d after term %d (limexp=%d)' % (d._n, i, L)))
            if not (np.isfinite(r) and np.isfinite(e)):
                out.setdefault('non-finite', (name, i, 'term %d: result %r abserr %r for a finite input sequence' % (i, r, e)))
            if i >= 2 and np.isfinite(r) and not (e >= 5 * eps * abs(r)):
                out.setdefault('abserr-floor', (name, i, 'term %d: result %r abserr %r < 5*eps*|result|' % (i, r, e)))
    return out


def replay(cex):
    kind = cex.get('kind')
    if kind == 'dea_shanks':
        ex = cm.nd_mods()['ex']
        name, f = SHANKS_FAMILIES[cex['family']]
        nterms, limexp = cex['nterms'], cex['limexp']
        vals = [Fraction(f(i)) for i in range(nterms)]
        d = ex.Dea(limexp=limexp)
        L = d.limexp
        for m in range(nterms):
            try:
                r, e = d(float(vals[m]))
            except Exception as exc:  # noqa
                return True, 'Dea(limexp=%d) raises %s at term %d of the family %s' % (limexp, type(exc).__name__, m, name)
            if d._n != min(m + 1, L - 1):
                return False, 'a guard fired at term %d' % m
            if m < 2:
                continue
            cands = [_shanks_value(vals, k, m - 2 * k) for k in range(1, min(m, L - 1) // 2 + 1)]
            cands = [float(c) for c in cands if c is not None]
            if not any(abs(r - c) <= 1e-7 * max(1.0, abs(c)) for c in cands):
                return True, ('Dea(limexp=%d) on the family %s: value %r after term %d is not an entry e_k(S_(m-2k)) of the exact '
                              'epsilon table of the last terms (candidates %r)' % (limexp, name, r, m, cands))
        return False, 'all values are epsilon-table entries'
    ex = cm.nd_mods()['ex']
    if kind == 'eps_threshold':
        thr = cex.get('threshold', 1.0)
        for scale in ([thr * 1e-3, thr * 1e-6] if np.isfinite(thr) else []) + [1e-20]:
            seq = [scale * (1 + 0.5 ** i) for i in range(5)]
            e = ex.EpsAlg()
            for v in seq:
                r = e(v)
            F = [Fraction(v) for v in seq]
            k, n0 = 2, 0
            num = _fdet([[F[n0 + i + j] for j in range(k + 1)] for i in range(k + 1)])
            d2 = lambda t: F[t + 2] - 2 * F[t + 1] + F[t]  # noqa
            den = _fdet([[d2(n0 + i + j) for j in range(k)] for i in range(k)])
            # with one transient the k=2 entry is degenerate in exact arithmetic; use the k=1 entry after 3 terms instead
            e = ex.EpsAlg()
            for v in seq[:3]:
                r = e(v)
            want = float((F[0] * F[2] - F[1] * F[1]) / (F[2] - 2 * F[1] + F[0]))
            if abs(r - want) > 1e-6 * abs(want):
                return True, 'EpsAlg on %r returns %r after 3 terms; the Shanks entry is %r (no difference vanishes)' % (seq[:3], r, want)
        # entries that agree to one unit in the last place but are not equal: no table difference vanishes
        eps = 2.0 ** -52
        for seq in ([-1.0, 0.0, 1.0 + eps], [1 + 4 * eps, 1 + 2 * eps, 1 + eps], [3.0, 3.0 * (1 + eps), 5.0], [2.0, 1.0, 1.0 - eps / 2, 0.25]):
            F = [Fraction(v) for v in seq[:3]]
            den = F[2] - 2 * F[1] + F[0]
            if den == 0 or F[1] == F[0] or F[2] == F[1]:
                continue
            e = ex.EpsAlg()
            for v in seq[:3]:
                r = e(v)
            want = float((F[0] * F[2] - F[1] * F[1]) / den)
            if not abs(r - want) <= 1e-6 * max(abs(want), 1e-300):
                return True, 'EpsAlg on %r returns %r after 3 terms; the Shanks entry is %r (no difference vanishes)' % (seq[:3], r, want)
        return False, 'EpsAlg equals the Shanks entry on small-scale sequences'
    if kind in ('eps', 'eps_table'):
        asg = cm.assignment_from_model(cex.get('model', {}))
        if kind == 'eps':
            k = cex['k']
            Lv = float(asg.get('L', 0.7))
            av = [float(asg.get('a%d' % i, 1)) or 1.0 for i in range(k)]
            qv = [float(asg.get('q%d' % i, 0.5 / (i + 1))) for i in range(k)]
            cands = [(Lv, av, qv), (0.7, [1.0 + 0.25 * i for i in range(k)], [0.5 / (i + 1) for i in range(k)])]
            for Lv, av, qv in cands:
                e = ex.EpsAlg()
                for n in range(2 * k + 1):
                    r = e(Lv + sum(a_ * q_ ** n for a_, q_ in zip(av, qv)))
                if abs(r - Lv) > 1e-6 * (1 + abs(Lv) + sum(abs(v) for v in av)):
                    return True, 'EpsAlg on L=%r a=%r q=%r returns %r after %d terms' % (Lv, av, qv, r, 2 * k + 1)
            return False, 'EpsAlg recovers L on the candidate sequences'
        m = cex['m']
        sv = [float(asg.get('s%d' % i, 1.0 / (i + 1))) for i in range(m + 1)]
        for seq in (sv, [1.0 / (i + 1) ** 2 + 0.1 * i for i in range(m + 1)]):
            e = ex.EpsAlg()
            for v in seq:
                r = e(v)
            k = m // 2
            n0 = m - 2 * k
            F = [Fraction(v) for v in seq]
            num = _fdet([[F[n0 + i + j] for j in range(k + 1)] for i in range(k + 1)])
            d2 = lambda t: F[t + 2] - 2 * F[t + 1] + F[t]  # noqa
            den = _fdet([[d2(n0 + i + j) for j in range(k)] for i in range(k)])
            if den != 0 and abs(r - float(num / den)) > 1e-6 * (1 + abs(float(num / den))):
                return True, 'EpsAlg value after term %d on %r is %r, Shanks entry is %r' % (m, seq, r, float(num / den))
        return False, 'EpsAlg equals the Shanks entry on the candidate sequences'
    if kind == 'dea_div':
        limexp = cex.get('limexp') or cex['config']['limexp']
        for le in [limexp] + [v for v in (3, 5, 7, 9, 11) if v != limexp]:
            fails = concrete_failures(le)
            if 'non-finite' in fails:
                fam, i, detail = fails['non-finite']
                return True, 'Dea(limexp=%d) on family %s: %s' % (le, fam, detail)
        return None, 'a division by a possibly vanishing table difference is reachable in the control graph but no sequence family produced a non-finite value'
    if kind in ('dea_edge', 'dea_floor'):
        limexp = cex.get('limexp') or cex['config']['limexp']
        fails = concrete_failures(limexp)
        key = cex.get('key', '')
        want = None
        for k in fails:
            if k.split('-')[0] in key or k in key:
                want = k
        if kind == 'dea_floor' and 'abserr-floor' in fails:
            want = 'abserr-floor'
        if want is None and 'index-out-of-array' in key or 'touches-res3la' in key or 'state-beyond-array' in key:
            for k in fails:
                if k.startswith('raises-IndexError') or k == 'n_out>limexp-1':
                    want = k
        if want:
            fam, i, detail = fails[want]
            return True, 'Dea(limexp=%d) on family %s: %s' % (limexp, fam, detail)
        return None, 'abstract control-graph counterexample %s not realised by the sequence families' % key
    if kind == 'dea3cmp':
        asg = cm.assignment_from_model(cex.get('model', {}))
        cand = [[float(asg.get('s%d' % i, 0.0)) for i in range(3)]] if asg else []
        for seq in cand + [[1.5, 1.25, 1.125], [2.0, 1.0, 1.75], [0.3, 0.9, 0.5], [0.75, 0.25, 0.0], [3.0, 1.0, 0.0], [-1.0, 0.0, 2.0],
                           [0.0, 1.0, 3.0], [1.0, 1.0, 2.0], [5.0, 1e-5, 3.0], [2.0, 3.0, 1e-6]]:
            d = ex.Dea(limexp=5)
            outs = [d(v) for v in seq]
            r3, e3 = ex.dea3(*seq)
            if outs[0][0] != seq[0] or outs[1][0] != seq[1] or abs(outs[2][0] - r3[0]) > 1e-12 * (1 + abs(r3[0])):
                return True, 'Dea on %r gives %r, dea3 gives %r' % (seq, outs, r3)
        return False, 'Dea agrees with dea3 on the candidate triples'
    return None, 'unknown kind'


def _fdet(M):
    n = len(M)
    if n == 0:
        return Fraction(1)
    if n == 1:
        return M[0][0]
    tot = Fraction(0)
    for c in range(n):
        minor = [row[:c] + row[c + 1:] for row in M[1:]]
        tot += (-1) ** c * M[0][c] * _fdet(minor)
    return tot
