"""C07 -- Richardson extrapolation removes exactly the modelled error terms.

  M  structure of the real ``Richardson._r_matrix`` for a SYMBOLIC step ratio rho > 1:
     entry [i, j+1] * rho**(i*(order+step*j)) == 1, column 0 == 1          (z3, univariate NRA)
  E  the real ``Richardson.__call__`` on  seq[i] = L + sum_j a_j h_i**k_j  (k_j = order+step*j,
     h_i = h0*rho**-i exact rationals / Gaussian rationals for complex rho) with SYMBOLIC
     L, a_j in [-1,1]: every output slot equals L within the backward-error bound of the
     pinv-produced weights; number of outputs = len - terms used; short sequences work  (z3, LRA)
  I  instance reuse: a Richardson object first used on a short sequence behaves like a fresh one afterwards
 S  for fresh symbolic sequences: error estimates >= 0 on all three branches of
     _estimate_error, column c of the output only contains symbols of column c
"""
from __future__ import annotations

import cmath
import math
from fractions import Fraction

import numpy as np
import z3

from .. import symnum as sn
from .. import tracing as tr
from . import common as cm

ID = 'C07'
EPS = Fraction(1, 2 ** 52)
K_TOL = 2000
QUICK_LENGTHS = [None]

META = {
    'title': 'Richardson removes the modelled error powers',
    'level': 'other',
    'explanation': (
        'Solver-based bounded checking of the real Richardson class: _r_matrix is executed with a symbolic step ratio and its '
        'entries are proven to be the documented powers; __call__ (rule via LAPACK pinv, convolution orientation/origin, '
        'trimming, _estimate_error) is executed on sequences L+sum_j a_j h^k_j with symbolic L, a_j and z3 proves every output '
        'slot equals L for all L, a_j within the backward-error bound of the float weights (real and complex ratios); for fresh '
        'symbolic sequences error estimates are proven non-negative and columns independent.'),
    'functions_encoded': ['numdifftools.extrapolation.Richardson.__init__/_r_matrix/rule/__call__/_estimate_error',
                          'numdifftools.extrapolation.convolve (wrapper; C kernel replaced by the validated reference)',
                          'numdifftools.extrapolation.max_abs'],
    'bounds': {
        'quick': 'sequence length 1..8, num_terms 0..5, step 1,2,4, order 1,2,4,6; real ratios {1.3, 1.6, 2, 4, 10, 100} + 2 seeded, '
                 'complex ratios r*exp(i*theta) r in {1.6,2,4}, theta in {pi/8, 1.0}; 1 and 2 columns',
        'thorough': 'step 1..4, order 1..8, ratios additionally {1.05, 1.1, 3, 16} + 6 seeded, theta additionally {pi/4, 2.5}',
    },
    'outside_claim': ['floating-point rounding inside the convolution (weights are taken as exact rationals)',
                      'sequence lengths above 8, num_terms above 5'],
    'stubs': ['scipy.ndimage.convolve1d -> pure-python reference with reflect boundary (differentially validated every run)',
              'module global np -> symbolic numpy proxy', 'np.abs of a complex symbolic value -> uninterpreted sqrt with sound linear axioms'],
    'assumptions': ['exact arithmetic with the float weights as exact rationals', 'L, a_j in [-1,1] (complex: each part)',
                    'tolerance tau = %d*eps*|w|_1*(1+sum_j |h_i|^k_j); configurations with tau >= 1e-3 are numerically '
                    'singular and excluded (counted)' % K_TOL],
    'timeout_ms': {'quick': 60000, 'thorough': 120000},
}


def preflight(tier, seed):
    return {'convolve_stub_comparisons': tr.validate_convolve_stub(seed)}


def ratios(tier, seed):
    rng = np.random.default_rng(seed)
    real = [1.3, 1.6, 2.0, 4.0, 10.0, 100.0] + [float(rng.uniform(1.2, 10)) for _ in range(2)]
    thetas = [math.pi / 8, 1.0]
    radii = [1.6, 2.0, 4.0]
    if tier == 'thorough':
        real += [1.05, 1.1, 3.0, 16.0] + [float(rng.uniform(1.05, 100)) for _ in range(6)]
        thetas += [math.pi / 4, 2.5]
    cplx = [complex(np.exp(1j * th) * r) for r in radii for th in thetas]
    return real, cplx


def jobs(tier, seed):
    th = tier == 'thorough'
    steps = (1, 2, 3, 4) if th else (1, 2, 4)
    orders = range(1, 9) if th else (1, 2, 4, 6)
    real, cplx = ratios(tier, seed)
    out = []
    for step in steps:
        for order in orders:
            out.append(('matrix-s%d-o%d' % (step, order), dict(kind='matrix', step=step, order=order, ratio=None, nt=0)))
    for ri, r in enumerate(real + cplx):
        rr = [r.real, r.imag] if isinstance(r, complex) else [r, 0.0]
        for step in steps:
            for order in orders:
                for nt in range(0, 6):
                    out.append(('exact-r%d-s%d-o%d-t%d' % (ri, step, order, nt),
                                dict(kind='exact', step=step, order=order, ratio=rr, nt=nt, tier=tier)))
    for nt in range(1, 6):
        out.append(('reuse-t%d' % nt, dict(kind='reuse', step=1, order=1, ratio=[2.0, 0.0], nt=nt)))
        out.append(('reuse-t%d-s2' % nt, dict(kind='reuse', step=2, order=2, ratio=[1.6, 0.0], nt=nt)))
    out.append(('integer-typed-witness', dict(kind='intwitness', step=1, order=1, ratio=[2.0, 0.0], nt=2)))
    for nt in (0, 1, 2, 3):
        for cplx_data in (False, True):
            out.append(('struct-t%d-%s' % (nt, 'c' if cplx_data else 'r'),
                        dict(kind='struct', step=1, order=1, ratio=[2.0, 1.0 if cplx_data else 0.0], nt=nt)))
    return out


def _ratio(r):
    return complex(r[0], r[1]) if r[1] != 0 else float(r[0])


def _cpow(z, k):
    """exact power of a Gaussian rational (pair of Fractions)"""
    re, im = Fraction(1), Fraction(0)
    for _ in range(k):
        re, im = re * z[0] - im * z[1], re * z[1] + im * z[0]
    return re, im


def _cinv(z):
    d = z[0] * z[0] + z[1] * z[1]
    return z[0] / d, -z[1] / d


def run_job(job, kind, step, order, ratio, nt, tier='quick'):
    ex = cm.nd_mods()['ex']
    QUICK_LENGTHS[0] = None
    if kind == 'intwitness':
        bad = int_witness_failures(ex)
        if not job.confirm('integer-typed ratio / sequences give the same weights and values as floats (concrete runs)', not bad):
            job.violation('int', dict(key='C07:integer-typed-arguments', kind='intwitness', detail=bad[0]))
        return
    if kind == 'matrix':
        return matrix(job, ex, step, order)
    if kind == 'exact':
        return exact(job, ex, step, order, _ratio(ratio), nt)
    if kind == 'reuse':
        return reuse(job, ex, step, order, _ratio(ratio), nt)
    return struct(job, ex, nt, ratio[1] != 0)


def int_witness_failures(ex):
    """CONCRETE witness runs (not solver evidence): integer-typed step ratios, steps, orders and sequences must behave like the
    same values as floats (the symbolic runs carry no numpy dtype)"""
    bad = []
    for ratio in (2, 4, 10, np.int64(5)):
        for step in (1, 2):
            for order in (1, 2, 4):
                for nt in (1, 2, 3):
                    ri = ex.Richardson(step_ratio=ratio, step=step, order=order, num_terms=nt)
                    rf = ex.Richardson(step_ratio=float(ratio), step=float(step) if False else step, order=order, num_terms=nt)
                    wi, wf = ri.rule(), rf.rule()
                    if np.shape(wi) != np.shape(wf) or not np.allclose(wi, wf, rtol=1e-12, atol=1e-14):
                        bad.append('Richardson(step_ratio=%r, step=%d, order=%d, num_terms=%d).rule() = %r; with step_ratio=%r: %r'
                                   % (ratio, step, order, nt, np.asarray(wi).tolist(), float(ratio), np.asarray(wf).tolist()))
                        continue
                    h = float(ratio) ** -np.arange(6.0)
                    seq_f = (3.0 + sum((j + 1.0) * h ** (order + step * j) for j in range(nt)))[:, None]
                    a = ri(seq_f, h[:, None])[0]
                    if not np.allclose(a, 3.0, rtol=0, atol=1e-9):
                        bad.append('Richardson(step_ratio=%r, step=%d, order=%d, num_terms=%d) maps L + sum a_j h^k_j to %r, L = 3' % (ratio, step, order, nt, np.ravel(a).tolist()))
    # integer-typed sequences
    r = ex.Richardson(step_ratio=2.0, step=1, order=1, num_terms=2)
    seq_i = np.array([[40], [22], [13], [9], [7]])
    st = 0.5 ** np.arange(5.0)[:, None]
    a, b = r(seq_i, st), r(seq_i.astype(float), st)
    if not all(np.allclose(np.asarray(u, dtype=float), np.asarray(w, dtype=float)) for u, w in zip(a[:2], b[:2])):
        bad.append('Richardson on an integer-typed sequence gives %r, on the same values as floats %r' % (np.ravel(a[0]).tolist(), np.ravel(b[0]).tolist()))
    return bad


def matrix(job, ex, step, order):
    rho = sn.real_var('rho')
    for num_terms in range(1, 6):
        def harness():
            # 1/rho is kept as one opaque term u = recip(rho): the claim is entry == u**(i*(order+step*j))
            with tr.traced(), sn.abstract_division():
                return ex.Richardson._r_matrix(rho, step, num_terms, order)
        p = sn.run_single(harness, assumptions=[rho.t > 1])
        u = sn.uninterpreted('recip')(rho.t)
        job.paths += 1
        m = np.asarray(p.result)
        job.confirm('r_matrix-shape', m.shape == (num_terms + 1, num_terms + 1))
        for i in range(num_terms + 1):
            v = m[i, 0]
            job.prove('col0[%d]' % i, sn.lift(v) == 1, [rho.t > 1], dict(key='C07:r_matrix-col0', kind='matrix'))
            for j in range(num_terms):
                k = i * (order + step * j)
                want = sn._pow_term(u, k) if k else z3.RealVal(1)
                job.prove('entry[%d,%d]' % (i, j + 1), sn.lift(m[i, j + 1]) == want, [rho.t > 1],
                          dict(key='C07:r_matrix-entry', kind='matrix', i=i, j=j, num_terms=num_terms))


def build_sequence(step, order, ratio, nt_model, length, L, a, h0=Fraction(1, 2), cols=1):
    """seq[i] = L + sum_j a_j h_i^(order+step*j) with exact (Gaussian) rational powers"""
    cplx = isinstance(ratio, complex)
    rz = (Fraction(ratio.real), Fraction(ratio.imag)) if cplx else (Fraction(ratio), Fraction(0))
    inv = _cinv(rz)
    rows = []
    hs = []
    for i in range(length):
        hi = _cpow(inv, i)
        hi = (hi[0] * h0, hi[1] * h0)
        hs.append(hi)
        acc = L
        for j in range(nt_model):
            pw = _cpow(hi, order + step * j)
            # coefficients rounded to the nearest double (as exact rationals): a relative perturbation of eps per
            # coefficient, covered by the tolerance; keeps the rationals at 53 bits
            pw = (Fraction(float(pw[0])), Fraction(float(pw[1])))
            if cplx:
                acc = acc + a[j] * _sc(pw)
            else:
                acc = acc + a[j] * sn.Sym(sn.ratval(pw[0]))
        rows.append([acc] * cols)
    return rows, hs


def float_or_frac(v):
    return sn.Sym(sn.ratval(v))


def _sc(pw):
    return sn.SymC(sn.Sym(sn.ratval(pw[0])), sn.Sym(sn.ratval(pw[1])))


def exact(job, ex, step, order, ratio, nt):
    cplx = isinstance(ratio, complex)
    names = []
    if cplx:
        L = sn.SymC(sn.real_var('Lr'), sn.real_var('Li'))
        a = [sn.SymC(sn.real_var('ar%d' % j), sn.real_var('ai%d' % j)) for j in range(max(nt, 1))]
        names = ['Lr', 'Li'] + [n_ % j for j in range(max(nt, 1)) for n_ in ('ar%d', 'ai%d')]
    else:
        L = sn.real_var('L')
        a = [sn.real_var('a%d' % j) for j in range(max(nt, 1))]
        names = ['L'] + ['a%d' % j for j in range(max(nt, 1))]
    box = [z3.And(z3.Real(nm) >= -1, z3.Real(nm) <= 1) for nm in names]
    for length in (range(1, 9) if QUICK_LENGTHS[0] is None else sorted({1, 2, 3, nt + 1, nt + 2, 8})):
        used = min(nt, length - 1)           # terms the rule can use for this length
        rows, hs = build_sequence(step, order, ratio, used, length, L, a)
        seq = np.empty((length, 1), dtype=object)
        for i in range(length):
            seq[i, 0] = rows[i][0]
        seq = seq.view(sn.SymArr)
        steps = np.array([[abs(complex(float(h[0]), float(h[1])))] for h in hs])

        def harness():
            with tr.traced(), cm.quiet():
                r = ex.Richardson(step_ratio=ratio, step=step, order=order, num_terms=nt)
                out = r(seq, steps)
                w = r.rule(length)
                return out, w
        p = sn.run_single(harness, assumptions=box)
        job.paths += 1
        if p.exc is not None:
            raise p.exc
        (new, err, st), w = p.result
        w1 = Fraction(float(np.sum(np.abs(w))))
        m = length - used
        if not job.confirm('output-count len=%d' % length, np.shape(new)[0] == m and np.shape(st)[0] == m):
            job.violation('output-count', dict(key='C07:output-count', kind='count', length=length, nt=nt,
                                               got=int(np.shape(new)[0]), want=m))
            continue
        if not job.confirm('abserr-count len=%d' % length, np.shape(err)[0] == m):
            job.violation('abserr-count', dict(key='C07:abserr-length:num_terms=%d' % nt if nt == 0 else 'C07:abserr-length',
                                               kind='count', length=length, nt=nt, got=int(np.shape(err)[0]), want=m))
        newl = np.asarray(new)
        for i in range(m):
            mag = 1 + sum(Fraction(abs(complex(float(hs[i][0]), float(hs[i][1])))) ** (order + step * j) for j in range(used))
            tau = K_TOL * EPS * w1 * mag * (2 if cplx else 1)
            if tau >= Fraction(1, 1000):
                job.excluded += 1
                continue
            v = newl[i, 0]
            parts = [('re', sn.lift(sn.as_symc(v).re), sn.lift(L.re)), ('im', sn.lift(sn.as_symc(v).im), sn.lift(L.im))] if cplx \
                else [('', sn.lift(v), sn.lift(L))]
            for lab, t, lt in parts:
                dev = t - lt
                job.prove('slot%d-len%d%s' % (i, length, lab), z3.And(dev <= sn.ratval(tau), -dev <= sn.ratval(tau)), box,
                          dict(key='C07:limit-not-recovered', kind='exact', length=length, slot=i, names=names, tau=float(tau)))
        # twin: one unmodelled power more must show up (when the rule is well conditioned)
        if used == nt and length >= nt + 1 and length <= 4 and 1.5 <= abs(ratio) <= 10 and nt <= 3 and order + step * used <= 12:
            b = sn.real_var('b')
            rows2, _ = build_sequence(step, order, ratio, used + 1, length, L, a + [sn.SymC(b, 0.0) if cplx else b])
            seq2 = np.empty((length, 1), dtype=object)
            for i in range(length):
                seq2[i, 0] = rows2[i][0]
            seq2 = seq2.view(sn.SymArr)

            def harness2():
                with tr.traced(), cm.quiet():
                    return ex.Richardson(step_ratio=ratio, step=step, order=order, num_terms=nt)(seq2, steps)
            new2 = np.asarray(sn.run_single(harness2).result[0])
            v2 = sn.as_symc(new2[0, 0])
            dev2 = sn.lift(v2.re) - sn.lift(sn.as_symc(L).re)
            job.twin('unmodelled power visible len=%d' % length,
                     box + [z3.And(b.t >= -1, b.t <= 1), dev2 != 0])
    _validate_exact(job, ex, step, order, ratio, nt)


def _validate_exact(job, ex, step, order, ratio, nt):
    rng = np.random.default_rng(11)
    length = 6
    used = min(nt, length - 1)
    cplx = isinstance(ratio, complex)
    Lv = complex(rng.normal(), rng.normal()) if cplx else float(rng.normal())
    av = [complex(rng.normal(), rng.normal()) if cplx else float(rng.normal()) for _ in range(max(nt, 1))]
    h = 0.5 * (1.0 / ratio) ** np.arange(length)
    seq = np.array([[Lv + sum(av[j] * h[i] ** (order + step * j) for j in range(used))] for i in range(length)])
    with cm.quiet():
        new, err, st = ex.Richardson(step_ratio=ratio, step=step, order=order, num_terms=nt)(seq, np.abs(h)[:, None])
    job.validated += 1
    return new


def reuse(job, ex, step, order, ratio, nt):
    """one Richardson instance used for a short sequence first: the next (long) call must behave like a fresh instance"""
    L = sn.real_var('L')
    a = [sn.real_var('a%d' % j) for j in range(nt)]
    names = ['L'] + ['a%d' % j for j in range(nt)]
    box = [z3.And(z3.Real(nm) >= -1, z3.Real(nm) <= 1) for nm in names]
    long_len = nt + 3

    def seq_of(length, used):
        rows, hs = build_sequence(step, order, ratio, used, length, L, a)
        arr = np.empty((length, 1), dtype=object)
        for i in range(length):
            arr[i, 0] = rows[i][0]
        return arr.view(sn.SymArr), np.array([[float(h[0])] for h in hs])
    for short_len in range(1, nt + 1):
        s_short, h_short = seq_of(short_len, min(nt, short_len - 1))
        s_long, h_long = seq_of(long_len, nt)

        def harness():
            with tr.traced(), cm.quiet():
                r = ex.Richardson(step_ratio=ratio, step=step, order=order, num_terms=nt)
                r(s_short, h_short)
                r.rule(short_len)
                again = r(s_long, h_long)
                fresh = ex.Richardson(step_ratio=ratio, step=step, order=order, num_terms=nt)(s_long, h_long)
                return again, fresh, r.num_terms
        p = sn.run_single(harness, assumptions=box)
        job.paths += 1
        if p.exc is not None:
            job.violation('raises', dict(key='C07:reuse:raises', kind='reuse', exc=repr(p.exc)[:200], short=short_len, nt=nt))
            continue
        (n1, e1, s1), (n2, e2, s2), nt_after = p.result
        info = dict(key='C07:reuse:instance-state-leaks', kind='reuse', short=short_len, nt=nt)
        if not job.confirm('same output count after reuse', np.shape(n1) == np.shape(n2) and nt_after == nt):
            job.violation('count', dict(info, got=list(np.shape(n1)), want=list(np.shape(n2)), num_terms_after=int(nt_after)))
            continue
        for u, v in zip(cm.flat_list(n1), cm.flat_list(n2)):
            job.prove('reused instance == fresh instance', sn.lift(u) == sn.lift(v), box, info)


def _same_sym(a, b):
    a, b = sn.as_symc(a), sn.as_symc(b)
    return z3.is_true(z3.simplify(z3.And(sn.lift(a.re) == sn.lift(b.re), sn.lift(a.im) == sn.lift(b.im))))


def struct(job, ex, nt, cplx):
    """fresh symbolic sequences: non-negative errors, column independence, all three branches"""
    for length in range(1, 7):
        cols = 2
        if cplx:
            seq = np.empty((length, cols), dtype=object)
            for i in range(length):
                for c in range(cols):
                    seq[i, c] = sn.SymC(sn.real_var('sr_%d_%d' % (i, c)), sn.real_var('si_%d_%d' % (i, c)))
            seq = seq.view(sn.SymArr)
        else:
            seq = sn.real_vars('s', (length, cols))
        steps = sn.real_vars('h', (length, cols))
        pos = [sn.lift(v) > 0 for v in cm.flat_list(steps)]

        def harness():
            with tr.traced(), cm.quiet():
                return ex.Richardson(step_ratio=2.0, step=1, order=1, num_terms=nt)(seq, steps)
        p = sn.run_single(harness, assumptions=pos)
        job.paths += 1
        if p.exc is not None:
            raise p.exc
        new, err, st = p.result
        errl = np.asarray(err)
        newl = np.asarray(new)
        # the documented alias extrapolate(sequence, steps) is the same map (also for complex sequences)
        def harness_alias():
            with tr.traced(), cm.quiet():
                return ex.Richardson(step_ratio=2.0, step=1, order=1, num_terms=nt).extrapolate(seq, steps)
        pa = sn.run_single(harness_alias, assumptions=pos)
        if pa.exc is not None:
            job.violation('alias', dict(key='C07:extrapolate-alias-differs', kind='alias', length=length, nt=nt, cplx=bool(cplx), exc=repr(pa.exc)[:200]))
        else:
            na, ea, _sa = pa.result
            same = np.shape(na) == np.shape(new) and all(_same_sym(u, w) for u, w in zip(cm.flat_list(na), cm.flat_list(new))) and \
                all(_same_sym(u, w) for u, w in zip(cm.flat_list(ea), cm.flat_list(err)))
            if not job.confirm('extrapolate alias == __call__ len=%d' % length, bool(same)):
                job.violation('alias', dict(key='C07:extrapolate-alias-differs', kind='alias', length=length, nt=nt, cplx=bool(cplx)))
        for i in range(errl.shape[0]):
            for c in range(cols):
                e = errl[i, c]
                job.prove('abserr>=0 len=%d [%d,%d]' % (length, i, c), sn.lift(e) >= 0, p.conds(),
                          dict(key='C07:negative-error-estimate', kind='struct', length=length, nt=nt))
                suffix = '_%d' % c
                used = sn.value_vars(newl[i, c]) | sn.term_vars(z3.simplify(sn.lift(e)))
                foreign = {u for u in used if not u.endswith(suffix) and not u.startswith('uf_')}
                if not job.confirm('column-independent len=%d [%d,%d]' % (length, i, c), not foreign):
                    job.violation('columns-mixed', dict(key='C07:columns-mixed', kind='columns', length=length, nt=nt,
                                                        foreign=sorted(foreign)[:4]))


# --------------------------------------------------------------------------
def replay(cex):
    ex = cm.nd_mods()['ex']
    cfg = cex['config']
    kind = cex.get('kind')
    asg = cm.assignment_from_model(cex.get('model', {}))
    ratio = _ratio(cfg['ratio']) if cfg.get('ratio') else 2.0
    step, order, nt = cfg['step'], cfg['order'], cfg['nt']
    if kind == 'matrix':
        for rho in (1.6, 2.0, 3.5):
            m = ex.Richardson._r_matrix(rho, step, cex['num_terms'], order)
            want = np.ones_like(m)
            i, j = np.ogrid[0:cex['num_terms'] + 1, 0:cex['num_terms']]
            want[:, 1:] = (1.0 / rho) ** (i * (step * j + order))
            if not np.allclose(m, want, rtol=1e-12):
                return True, '_r_matrix(%r,%d,%d,%d) = %r' % (rho, step, cex['num_terms'], order, m)
        return False, '_r_matrix has the documented entries at the probe ratios'
    if kind in ('exact', 'count'):
        length = cex['length']
        used = min(nt, length - 1)
        cplx = isinstance(ratio, complex)
        if cplx:
            Lv = complex(float(asg.get('Lr', 0)), float(asg.get('Li', 0)))
            av = [complex(float(asg.get('ar%d' % j, 0)), float(asg.get('ai%d' % j, 0))) for j in range(max(nt, 1))]
        else:
            Lv = float(asg.get('L', 0))
            av = [float(asg.get('a%d' % j, 0)) for j in range(max(nt, 1))]
        h = 0.5 * (1.0 / ratio) ** np.arange(length)
        seq = np.array([[Lv + sum(av[j] * h[i] ** (order + step * j) for j in range(used))] for i in range(length)])
        try:
            with cm.quiet():
                new, err, st = ex.Richardson(step_ratio=ratio, step=step, order=order, num_terms=nt)(seq, np.abs(h)[:, None])
        except Exception as e:  # noqa
            return True, 'Richardson raises %s: %s (len=%d, num_terms=%d)' % (type(e).__name__, e, length, nt)
        if new.shape[0] != length - used or st.shape[0] != length - used:
            return True, 'Richardson returned %d outputs for length %d with %d terms' % (new.shape[0], length, used)
        if err.shape[0] != new.shape[0]:
            return True, ('Richardson(num_terms=%d) on a sequence of length %d returns %d values but %d error estimates'
                          % (nt, length, new.shape[0], err.shape[0]))
        if kind == 'count':
            return False, 'output counts consistent'
        tol = max(100 * cex.get('tau', 1e-9), 1e-9)
        i = cex.get('slot', 0)
        if abs(new[i, 0] - Lv) > tol:
            return True, ('Richardson(step_ratio=%r, step=%d, order=%d, num_terms=%d) on L+sum a_j h^k_j (L=%r, a=%r, len %d): slot %d '
                          '= %r' % (ratio, step, order, nt, Lv, av, length, i, new[i, 0]))
        return False, 'slot %d = %r, L = %r' % (i, new[i, 0], Lv)
    if kind == 'reuse':
        short = cex.get('short', 1)
        rng = np.random.default_rng(4)
        h = 0.5 * (1.0 / ratio) ** np.arange(nt + 3)
        seq = (1.0 + sum(rng.normal() * h ** (order + step * j) for j in range(nt)))[:, None]
        r = ex.Richardson(step_ratio=ratio, step=step, order=order, num_terms=nt)
        with cm.quiet():
            r(seq[:short], h[:short, None])
            a1 = r(seq, h[:, None])
            a2 = ex.Richardson(step_ratio=ratio, step=step, order=order, num_terms=nt)(seq, h[:, None])
        if a1[0].shape != a2[0].shape or not np.array_equal(a1[0], a2[0]):
            return True, ('Richardson(num_terms=%d) instance first called with a sequence of length %d returns %r for a length-%d sequence; '
                          'a fresh instance returns %r' % (nt, short, a1[0].ravel(), nt + 3, a2[0].ravel()))
        return False, 'reused instance equals fresh instance'
    if kind == 'intwitness':
        bad = int_witness_failures(ex)
        return (True, bad[0]) if bad else (False, 'integer-typed arguments behave like floats')
    if kind == 'alias':
        length, ntv = cex['length'], cex['nt']
        rng = np.random.default_rng(3)
        for trial in range(3):
            seq = rng.normal(size=(length, 2)) + (1j * rng.normal(size=(length, 2)) if cex.get('cplx') else 0)
            steps = 0.5 ** np.arange(length)[:, None] * np.ones((1, 2))
            with cm.quiet():
                try:
                    a = ex.Richardson(step_ratio=2.0, step=1, order=1, num_terms=ntv).extrapolate(seq, steps)
                except Exception as e:  # noqa
                    return True, 'Richardson.extrapolate raises %s: %s' % (type(e).__name__, e)
                b = ex.Richardson(step_ratio=2.0, step=1, order=1, num_terms=ntv)(seq, steps)
            if not all(np.array_equal(np.asarray(u), np.asarray(w)) for u, w in zip(a, b)):
                return True, 'Richardson.extrapolate(sequence, steps) = %r differs from Richardson.__call__ = %r' % (a[0].ravel()[:3], b[0].ravel()[:3])
        return False, 'alias equals __call__'
    if kind in ('struct', 'columns'):
        length = cex['length']
        rng = np.random.default_rng(1)
        cplx = cfg['ratio'][1] != 0
        seq = np.zeros((length, 2), dtype=complex if cplx else float)
        steps = np.zeros((length, 2))
        for i in range(length):
            for c in range(2):
                if cplx:
                    seq[i, c] = complex(float(asg.get('sr_%d_%d' % (i, c), 0)), float(asg.get('si_%d_%d' % (i, c), 0)))
                else:
                    seq[i, c] = float(asg.get('s_%d_%d' % (i, c), 0))
                steps[i, c] = float(asg.get('h_%d_%d' % (i, c), 0.5 ** i)) or 0.5 ** i
        with cm.quiet():
            r = ex.Richardson(step_ratio=2.0, step=1, order=1, num_terms=nt)
            new, err, st = r(seq, steps)
        if np.any(err < 0):
            return True, 'negative error estimate %r for sequence %r' % (err, seq)
        seq2 = seq.copy()
        seq2[:, 1] += rng.normal(size=length)
        with cm.quiet():
            new2, err2, _ = r(seq2, steps)
        if not (np.array_equal(new2[:, 0], new[:, 0]) and np.array_equal(err2[:, 0], err[:, 0])):
            return True, 'column 0 of the Richardson output changes when column 1 of the input changes'
        return False, 'no deviation'
    return None, 'unknown kind'
