"""C13 -- dea3: recovers the limit of a geometric transient, honest error, total on finite input.

All obligations run the real ``numdifftools.extrapolation.dea3`` on symbolic arrays
(merged trace, no forks):

  R1  abserr >= 0 and abserr >= |result - v_2| for ALL real inputs (so inputs within t of
      X give |result - X| <= abserr + t: lemma L2 used by C02/C18)
  R2  elementwise: output element i contains only the symbols of input element i;
      inputs are left unmodified; symmetric=True only trims
  R3  geometric transient e_k = L + a q^k on the Shanks branch: |result - L| <= 1e-250 (the only
      deviation in exact arithmetic is the +TINY regulariser), abserr >= err1+err2 >= 2e-17 > that
  F1  IEEE totality (z3 FP, every operation RNE-rounded): finite inputs |e| <= B give finite result,
      finite non-negative abserr (float32 with rescaled constants in the quick tier, float64 thorough)
"""
from __future__ import annotations

from fractions import Fraction

import numpy as np
import z3

from .. import symnum as sn
from .. import tracing as tr
from . import common as cm

ID = 'C13'

META = {
    'title': 'dea3 recovers geometric limits, honest non-negative error, total',
    'level': 'other',
    'explanation': (
        'Solver-based checking of the real dea3: the function is executed on symbolic numpy arrays (all comparisons, '
        'np.where and mask assignments merged into If terms). z3 decides over all real inputs: abserr>=0, '
        'abserr>=|result-v2|, element independence; over all L, a, q in the stated 30-decade box on the Shanks branch: '
        '|result-L|<=1e-250 (QF_NRA); and in IEEE arithmetic (QF_FP, bit-blasted, every operation rounded) that finite inputs '
        'of moderate magnitude give finite results and finite non-negative error estimates.'),
    'functions_encoded': ['numdifftools.extrapolation.dea3', 'numdifftools.extrapolation.max_abs'],
    'bounds': {
        'quick': 'arrays of 3 elements (shape (3,)) and shape (2,2); geometric box |L|,|a|<=1e15, |a|>=1e-15, 1/50<=|q|<=50, '
                 '|q-1|>=5e-5; IEEE totality at float32 (eps/tiny rescaled to float32), |e|<=1e12',
        'thorough': 'as quick plus IEEE totality at float64 with the real constants, |e|<=1e100',
    },
    'outside_claim': ['the rounding-amplification constant of the geometric case in floating point '
                      '("small multiple of eps amplified by conditioning")', 'inputs beyond the magnitude bound'],
    'stubs': ['module global np -> symbolic numpy proxy (np.where / masks / maximum / abs merged into If terms)'],
    'assumptions': ['R1-R3 in exact real arithmetic with the library constants as exact rationals',
                    'F1: z3 FP semantics = IEEE-754 RNE; numpy maximum modelled NaN-propagating'],
    'timeout_ms': {'quick': 300000, 'thorough': 1800000},
}


def jobs(tier, seed):
    out = [('real-structure-3', dict(kind='structure', shape=[3])),
           ('real-structure-2x2', dict(kind='structure', shape=[2, 2])),
           ('real-symmetric', dict(kind='symmetric', shape=[4])),
           ('real-symmetric-3x2', dict(kind='symmetric', shape=[3, 2])),
           ('real-symmetric-3x1', dict(kind='symmetric', shape=[3, 1])),
           ('real-scalar', dict(kind='scalar', shape=[])),
           ('real-broadcast', dict(kind='broadcast', shape=[2, 2])),
           ('integer-typed-witness', dict(kind='intwitness', shape=[])),
           ('geometric', dict(kind='geometric', shape=[1])),
           ('fp32-total', dict(kind='fp', shape=[32]))]
    if tier == 'thorough':
        out.append(('fp64-total', dict(kind='fp', shape=[64])))
    return out


def int_witness_failures(ex):
    """CONCRETE witness runs (not solver evidence): the symbolic runs carry no numpy dtype, so a result buffer that inherits
    an integer dtype from the inputs is invisible to them"""
    bad = []
    triples = [(0, 3, 4), (0, 2, 7), (1, 3, 4), (8, 4, 2), (-5, 1, 4), (10, 4, 1), (1, 1, 2), (3, 1, 1), (2, 2, 2), (0, 0, 0), (0, 0, 5)]
    for t in triples:
        variants = [('int', t), ('mixed', (float(t[0]), float(t[1]), t[2])), ('mixed2', (t[0], float(t[1]), float(t[2]))),
                    ('int-array', tuple(np.array([v, v + 1]) for v in t)), ('int64-0d', tuple(np.int64(v) for v in t))]
        for label, args in variants:
            fl = tuple(np.asarray(a, dtype=float) for a in args)
            keep = [np.array(a, copy=True) for a in args]
            try:
                with cm.quiet():
                    r, e = ex.dea3(*args)
                    rf, ef = ex.dea3(*fl)
            except Exception as exc:  # noqa
                bad.append('dea3%r raises %s: %s' % (args, type(exc).__name__, exc))
                continue
            if not (np.array_equal(np.asarray(r, dtype=float), rf) and np.array_equal(np.asarray(e, dtype=float), ef)):
                bad.append('dea3 with %s terms %r returns (%r, %r); with the same values as floats (%r, %r)' % (label, args, r, e, rf, ef))
            if any(not np.array_equal(np.asarray(a), k) for a, k in zip(args, keep)):
                bad.append('dea3 modified its %s inputs %r' % (label, args))
    return bad


def _vars(prefix, shape):
    return sn.real_vars(prefix, tuple(shape))


def broadcast(job, ex):
    """terms of different shapes are broadcast: entry [i, j] of both outputs is, term for term, what the call on the three
    scalars (v0[i, j], v1[i, 0], v2[i, 0]) returns; same for a scalar mixed with arrays"""
    cases = [('(2,2)/(2,1)/(2,1)', [_vars('e0', (2, 2)), _vars('e1', (2, 1)), _vars('e2', (2, 1))]),
             ('(2,)/scalar/(2,)', [_vars('e0', (2,)), sn.real_var('e1'), _vars('e2', (2,))]),
             ('(2,1,2)/(1,2)/(2,)', [_vars('e0', (2, 1, 2)), _vars('e1', (1, 2)), _vars('e2', (2,))])]
    for label, ins in cases:
        def harness():
            with tr.traced(), cm.quiet(), sn.abstract_division():
                full = ex.dea3(*ins)
                shp = np.broadcast_shapes(*[np.shape(a) for a in ins])
                b = [np.broadcast_to(np.asarray(a, dtype=object), shp) for a in ins]
                each = {idx: ex.dea3(b[0][idx], b[1][idx], b[2][idx]) for idx in np.ndindex(shp)}
                return full, each, shp
        p = sn.run_single(harness)
        job.paths += 1
        if p.exc is not None:
            raise p.exc
        (res, err), each, shp = p.result
        info = dict(key='C13:broadcast-not-elementwise', kind='broadcast', case=label)
        if not job.confirm('broadcast shape %s' % label, np.shape(res) == shp and np.shape(err) == shp):
            job.violation('shape', dict(info, got=[list(np.shape(res)), list(np.shape(err))], want=list(shp)))
            continue
        for idx in np.ndindex(shp):
            r1, e1 = each[idx]
            job.prove('result%s is the scalar call [%s]' % (idx, label), sn.lift(np.asarray(res)[idx]) == sn.lift(cm.flat_list(r1)[0]), [], info)
            job.prove('abserr%s is the scalar call [%s]' % (idx, label), sn.lift(np.asarray(err)[idx]) == sn.lift(cm.flat_list(e1)[0]), [], info)


def run_job(job, kind, shape):
    ex = cm.nd_mods()['ex']
    if kind == 'broadcast':
        return broadcast(job, ex)
    if kind in ('structure', 'scalar'):
        if kind == 'scalar':
            ins = [sn.real_var('e%d' % k) for k in range(3)]
        else:
            ins = [_vars('e%d' % k, shape) for k in range(3)]
        before = [[v for v in cm.flat_list(a)] for a in ins]

        def harness():
            # 1/delta as an uninterpreted reciprocal: R1/R2 hold for any value of the quotient
            with tr.traced(), cm.quiet(), sn.abstract_division():
                return ex.dea3(*ins)
        p = sn.run_single(harness)
        job.paths += 1
        res, err = p.result
        job.confirm('output-shape', np.shape(res) == (tuple(shape) if shape else (1,)) and np.shape(err) == np.shape(res))
        after = [[v for v in cm.flat_list(a)] for a in ins]
        same = all(x is y for b, a in zip(before, after) for x, y in zip(b, a))
        if not job.confirm('inputs-unmodified', same):
            job.violation('inputs-modified', dict(key='C13:inputs-modified', kind='inputs'))
        rl, el = cm.flat_list(res), cm.flat_list(err)
        e2 = cm.flat_list(ins[2])
        for i in range(len(rl)):
            r, a = sn.lift(rl[i]), sn.lift(el[i])
            job.prove('abserr>=0[%d]' % i, a >= 0, p.conds(), dict(key='C13:negative-abserr', kind='real', idx=i))
            job.prove('abserr>=|res-v2|[%d]' % i, z3.And(a >= r - sn.lift(e2[i]), a >= sn.lift(e2[i]) - r), p.conds(),
                      dict(key='C13:abserr-below-correction', kind='real', idx=i))
            # the estimate contains the spread of the three terms it was computed from (QUADPACK: err1 + err2 + ...), also on
            # the fallback branch: a raw term is never returned with a rounding-level estimate while the terms still move
            e0i, e1i = sn.lift(cm.flat_list(ins[0])[i]), sn.lift(cm.flat_list(ins[1])[i])
            spread = cm.zabs(sn.lift(e2[i]) - e1i) + cm.zabs(e1i - e0i)
            job.prove('abserr>=|v2-v1|+|v1-v0|[%d]' % i, a >= spread, p.conds(), dict(key='C13:abserr-below-spread', kind='real', idx=i))
            allowed = {str(sn.lift(cm.flat_list(ins[k])[i])) for k in range(3)}
            used = sn.term_vars(z3.simplify(r)) | sn.term_vars(z3.simplify(a))
            if not job.confirm('elementwise[%d]' % i, used <= allowed):
                job.violation('not-elementwise', dict(key='C13:not-elementwise', kind='elementwise', idx=i,
                                                      extra=sorted(used - allowed)))
        job.twin('reach', p.conds() + [sn.lift(rl[0]) != sn.lift(e2[0])])

        def harness_real():
            with tr.traced(), cm.quiet():
                return ex.dea3(*ins)
        res2, err2 = sn.run_single(harness_real).result
        _validate(job, ins, res2, err2, ex)
        return
    if kind == 'symmetric':
        ins = [_vars('e%d' % k, shape) for k in range(3)]

        def h1():
            with tr.traced(), cm.quiet():
                return ex.dea3(*ins, symmetric=True)

        def h0():
            with tr.traced(), cm.quiet():
                return ex.dea3(*ins, symmetric=False)
        rs, es = sn.run_single(h1).result
        r0, e0 = sn.run_single(h0).result
        job.paths += 2
        n = shape[0]
        # one element trimmed from each output along the sequence axis (axis 0), every other axis untouched
        want = (n - 1,) + tuple(shape[1:])
        if not job.confirm('symmetric-shapes', np.shape(rs) == want and np.shape(es) == want):
            job.violation('symmetric-shape', dict(key='C13:symmetric-shape', kind='sym', got=[list(np.shape(rs)), list(np.shape(es))], want=list(want)))
            return
        for idx in np.ndindex(want):
            up = (idx[0] + 1,) + idx[1:]
            job.prove('sym-result%s' % (idx,), sn.lift(np.asarray(rs)[idx]) == sn.lift(np.asarray(r0)[idx]), [], dict(key='C13:symmetric-result', kind='sym'))
            job.prove('sym-abserr%s' % (idx,), sn.lift(np.asarray(es)[idx]) == sn.lift(np.asarray(e0)[up]), [], dict(key='C13:symmetric-abserr', kind='sym'))
        # length-1 input with symmetric=True is returned untrimmed
        one = [_vars('s%d' % k, [1]) for k in range(3)]

        def h2():
            with tr.traced(), cm.quiet():
                return ex.dea3(*one, symmetric=True)
        r1, e1 = sn.run_single(h2).result
        job.confirm('symmetric-len1', np.shape(r1) == (1,) and np.shape(e1) == (1,))
        return
    if kind == 'intwitness':
        bad = int_witness_failures(ex)
        if not job.confirm('integer-typed and mixed-type terms give the same results as the same values as floats (concrete runs)', not bad):
            job.violation('int', dict(key='C13:integer-typed-inputs', kind='intwitness', detail=bad[0]))
        return
    if kind == 'geometric':
        return geometric(job, ex)
    if kind == 'fp':
        return fp_total(job, ex, shape[0])


def _validate(job, ins, res, err, ex):
    rng = np.random.default_rng(7)
    names = sorted(sn.value_vars(list(ins)))
    for trial in range(4):
        asg = {nm: Fraction(int(rng.integers(-2000, 2000)), 256) for nm in names}
        if trial == 1:   # ties / equal terms
            for nm in names:
                asg[nm] = Fraction(3, 4)
        conc = [np.array([float(asg[str(sn.lift(v))]) for v in cm.flat_list(a)]).reshape(np.shape(a) or (1,)) for a in ins]
        with cm.quiet():
            r, e = ex.dea3(*conc)
        sr = sn.evaluate(np.asarray(res), asg)
        se = sn.evaluate(np.asarray(err), asg)
        for a, b in list(zip(sr.ravel(), np.ravel(r))) + list(zip(se.ravel(), np.ravel(e))):
            if abs(float(a) - float(b)) > 1e-9 * (1 + abs(float(b))):
                job.error('trace validation mismatch: %r vs %r' % (float(a), float(b)))
                return
        job.validated += 1


def geometric(job, ex):
    L, a, q = z3.Reals('L a q')
    ins = [sn.SymArr([sn.Sym(L + a)]), sn.SymArr([sn.Sym(L + a * q)]), sn.SymArr([sn.Sym(L + a * q * q)])]

    def harness():
        with tr.traced(), cm.quiet():
            return ex.dea3(*ins)
    p = sn.run_single(harness)
    job.paths += 1
    res, err = p.result
    r, ab = sn.lift(res[0]), sn.lift(err[0])
    A = cm.zabs
    box = [A(L) <= 10 ** 15, A(a) <= 10 ** 15, A(a) >= sn.ratval(Fraction(1, 10 ** 15)), A(q) <= 50,
           A(q) >= sn.ratval(Fraction(1, 50)), A(q - 1) >= sn.ratval(Fraction(1, 20000))]      # q up to 5e-5 from 1
    # the DOCUMENTED guards, restated from the inputs (not read off the code): the three terms are not converged
    # (|difference| > eps * max|term|) and there is no irregular behaviour (|sss*e1| > 1e-4, where for a geometric triple
    # sss*e1 = -(L + a q)/(a q)).  A guard that fires outside this region is a violation.
    eps = sn.ratval(2.0 ** -52)
    e0t, e1t, e2t = L + a, L + a * q, L + a * q * q
    mx01 = z3.If(A(e0t) >= A(e1t), A(e0t), A(e1t))
    mx12 = z3.If(A(e1t) >= A(e2t), A(e1t), A(e2t))
    shanks = z3.And(A(a * (q - 1)) > 2 * eps * mx01, A(a * q * (q - 1)) > 2 * eps * mx12,
                    A(L + a * q) > sn.ratval(Fraction(2, 10 ** 4)) * A(a * q))
    tiny = sn.ratval(Fraction(1, 10 ** 250))
    nice = [A(L) <= 4, A(a) <= 4, A(a) >= sn.ratval(Fraction(1, 4)), q >= sn.ratval(Fraction(1, 4)),
            q <= sn.ratval(Fraction(3, 4)), A(r - L) >= sn.ratval(Fraction(1, 1000))]
    job.prove('geometric: |result-L| <= 1e-250 on the Shanks branch', A(r - L) <= tiny, box + [shanks],
              dict(key='C13:geometric-limit-missed', kind='geometric'), prefer=nice)
    d1, d2 = a * (q - 1), a * q * (q - 1)
    floor = sn.ratval(Fraction(5, 10 ** 20))
    job.prove('geometric: abserr >= err1+err2', ab >= A(d1) + A(d2), box, dict(key='C13:geometric-abserr-small', kind='geometric'))
    job.prove('geometric: err1+err2 >= 5e-20 on the box', A(d1) + A(d2) >= floor, box, dict(key='C13:box', kind='geometric'),
              mandatory=True)
    job.twin('geometric: Shanks branch reachable', box + [shanks])
    # numeric spot validation of the trace against the library
    rng = np.random.default_rng(3)
    for _ in range(3):
        Lv, av, qv = float(rng.normal()), float(rng.normal()), float(rng.uniform(0.2, 0.8))
        with cm.quiet():
            rr, ee = ex.dea3(Lv + av, Lv + av * qv, Lv + av * qv * qv)
        asg = {'L': Fraction(Lv), 'a': Fraction(av), 'q': Fraction(qv)}
        sv = float(sn.evaluate(res[0], asg))
        if abs(sv - float(rr[0])) > 1e-6 * (1 + abs(sv)):
            job.error('geometric trace validation mismatch %r vs %r' % (sv, rr))
        job.validated += 1


def fp_total(job, ex, bits):
    sort = z3.Float32() if bits == 32 else z3.Float64()
    ins = [sn.SymArr([sn.fp_var('e%d' % k, sort)]) for k in range(3)]
    extra = []
    if bits == 32:
        f32 = np.finfo(np.float32)
        extra = [(ex, '_EPS', float(f32.eps)), (ex, '_TINY', float(f32.tiny))]
        bound = 1e12
    else:
        bound = 1e100

    def harness():
        with tr.traced(extra=extra), cm.quiet():
            return ex.dea3(*ins)
    p = sn.run_single(harness)
    job.paths += 1
    res, err = p.result
    r, ab = res[0].t, err[0].t
    pre = []
    for a in ins:
        e = a[0].t
        pre += [z3.Not(z3.fpIsNaN(e)), z3.Not(z3.fpIsInf(e)), z3.fpLEQ(z3.fpAbs(e), z3.FPVal(bound, sort))]
    fin = lambda v: z3.And(z3.Not(z3.fpIsNaN(v)), z3.Not(z3.fpIsInf(v)))  # noqa
    claim = z3.And(fin(r), fin(ab), z3.fpGEQ(ab, z3.FPVal(0.0, sort)))
    job.prove('float%d: finite result, finite non-negative abserr for all finite |e|<=%g' % (bits, bound), claim, pre,
              dict(key='C13:fp%d-not-total' % bits, kind='fp', bits=bits), presimplify=False)
    job.twin('float%d reach: Shanks branch' % bits, pre + [z3.Not(z3.fpEQ(r, z3.fpMul(z3.RNE(), ins[2][0].t, z3.FPVal(1.0, sort))))],
             timeout_ms=120000)


# --------------------------------------------------------------------------
def replay(cex):
    ex = cm.nd_mods()['ex']
    kind = cex.get('kind')
    m = cex.get('model', {})
    asg = cm.assignment_from_model(m)
    if kind == 'fp':
        import re
        vals = []
        for k in range(3):
            s = m.get('e%d' % k)
            vals.append(_fp_to_float(s))
        if any(v is None for v in vals) or cex.get('bits') != 64:
            return None, 'float32 counterexample (rescaled constants) cannot be replayed on the float64 library: %s' % m
        with cm.quiet():
            r, e = ex.dea3(*vals)
        ok = np.all(np.isfinite(r)) and np.all(np.isfinite(e)) and np.all(e >= 0)
        return (not ok), 'dea3%r -> %r, %r' % (tuple(vals), r, e)
    if kind == 'geometric':
        Lm, am, qm = (float(asg.get(k, 0)) for k in ('L', 'a', 'q'))
        # the model point, then the same transient with L commensurate with a (so that the float triple still carries the
        # transient), then a sweep over 30 decades
        cands = [(Lm, am, qm), (3 * am, am, qm), (-2 * am, am, qm)]
        for s_ in (1e-15, 1e-12, 1e-8, 1e-3, 1.0, 1e3, 1e8, 1e15):
            for q_ in (0.9, 0.5, -0.7, 2.0, -2.5, qm):
                cands.append((3 * s_, s_, q_))
        for Lv, av, qv in cands:
            if av == 0 or qv in (0.0, 1.0):
                continue
            t0, t1, t2 = Lv + av, Lv + av * qv, Lv + av * qv * qv
            # exact limit of the float triple actually passed (its own geometric model): L' = (t0 t2 - t1^2)/(t0 - 2 t1 + t2)
            F0, F1, F2 = Fraction(t0), Fraction(t1), Fraction(t2)
            den = F0 - 2 * F1 + F2
            if den == 0:
                continue
            Lx = float((F0 * F2 - F1 * F1) / den)
            d1, d2 = abs(t1 - t0), abs(t2 - t1)
            eps = 2.0 ** -52
            if d1 <= 4 * eps * max(abs(t0), abs(t1)) or d2 <= 4 * eps * max(abs(t1), abs(t2)):
                continue            # differences at rounding level: the documented convergence fallback
            s0 = (1.0 / (t2 - t1) - 1.0 / (t1 - t0))
            if abs(s0 * t1) <= 1e-3:
                continue            # documented irregular-behaviour guard
            with cm.quiet():
                r, e = ex.dea3(t0, t1, t2)
            tol = 1e-6 * (abs(Lx) + abs(t0 - Lx))
            if abs(r[0] - Lx) > tol or e[0] < abs(r[0] - Lx) * (1 - 1e-9) - 1e-300:
                return True, ('dea3(%r, %r, %r) = %r with abserr %r; the terms are L + a q^k with L = %r (a=%r, q=%r)'
                              % (t0, t1, t2, r[0], e[0], Lx, av, qv))
        return False, 'dea3 recovers the limit on the model point and a 30-decade sweep'
    if kind == 'broadcast':
        rng = np.random.default_rng(4)
        for trial in range(20):
            v0 = rng.normal(size=(3, 4)) * 10.0 ** rng.integers(-3, 4, size=(3, 1))
            v1 = rng.normal(size=(3, 1)) * 10.0 ** rng.integers(-3, 4, size=(3, 1))
            v2 = v1.copy() if trial % 2 else rng.normal(size=(3, 1))
            if trial % 3 == 0:
                v0[:, 1:] = v1            # constant / equal terms: the fallback branch
            with cm.quiet():
                r, e = ex.dea3(v0, v1, v2)
                for idx in np.ndindex(3, 4):
                    rs, es = ex.dea3(v0[idx], v1[idx[0], 0], v2[idx[0], 0])
                    if np.shape(r) != (3, 4) or r[idx] != rs[0] or e[idx] != es[0]:
                        return True, ('dea3 on broadcast shapes (3,4),(3,1),(3,1): entry %s is (%r, %r), the call on the three scalars gives (%r, %r)'
                                      % (idx, r[idx] if np.shape(r) == (3, 4) else None, e[idx] if np.shape(e) == (3, 4) else None, rs[0], es[0]))
        return False, 'broadcast call equals the scalar calls'
    if kind == 'intwitness':
        bad = int_witness_failures(ex)
        return (True, bad[0]) if bad else (False, 'integer-typed inputs behave like floats')
    if kind in ('real', 'elementwise', 'inputs', 'sym'):
        cfg = cex['config']
        shape = tuple(cfg['shape']) or (1,)
        arrs = []
        for k in range(3):
            a = np.zeros(shape)
            for idx in np.ndindex(shape):
                nm = ('e%d_' % k) + '_'.join(map(str, idx)) if cfg['shape'] else 'e%d' % k
                a[idx] = float(asg.get(nm, 0))
            arrs.append(a)
        keep = [a.copy() for a in arrs]
        with cm.quiet():
            r, e = ex.dea3(*arrs)
        if any(not np.array_equal(a, b) for a, b in zip(arrs, keep)):
            return True, 'dea3 modified its inputs'
        if np.any(e < 0) or np.any(e < np.abs(r - arrs[2]) * (1 - 1e-12)):
            return True, 'dea3%r -> result %r abserr %r (negative or below |result - v2|)' % (arrs, r, e)
        for cand in [arrs] + [[np.full(shape, v) for v in t] for t in ((-1.0, 0.0, 1.0), (2.0, 3.0, 4.0), (1.0, 1.0, 2.0), (5.0, 1e-9, -5.0))]:
            with cm.quiet():
                rc, ec = ex.dea3(*cand)
            sp = np.abs(cand[2] - cand[1]) + np.abs(cand[1] - cand[0])
            if np.any(ec < sp * (1 - 1e-12)):
                return True, 'dea3%r -> result %r with abserr %r, below the spread |v2-v1|+|v1-v0| = %r of the terms' % ([c.ravel()[0] for c in cand], rc.ravel()[0], ec.ravel()[0], sp.ravel()[0])
        if kind == 'elementwise':
            for i in range(r.size):
                arrs2 = [a.copy() for a in keep]
                for a in arrs2:
                    a.flat[(i + 1) % r.size] += 1.0
                with cm.quiet():
                    r2, e2 = ex.dea3(*arrs2)
                if r2.flat[i] != r.flat[i] or e2.flat[i] != e.flat[i]:
                    return True, 'element %d of dea3 output changes when another input element changes' % i
        if kind == 'sym':
            with cm.quiet():
                rs, es = ex.dea3(*keep, symmetric=True)
            if not (np.array_equal(rs, r[:-1]) and np.array_equal(es, e[1:])):
                return True, 'symmetric=True does not return result[:-1], abserr[1:]'
        return False, 'no deviation on the model values'
    return None, 'unknown counterexample kind'


def _fp_to_float(s):
    if s is None:
        return None
    try:
        t = z3.FPVal(0.0, z3.Float64())
        # model strings look like 1.5*(2**3) or -0.0 / +oo / NaN
        s = str(s).replace('(2**', '(2.0**')
        if 'oo' in s or 'NaN' in s:
            return None
        return float(eval(s, {'__builtins__': {}}))
    except Exception:  # noqa
        return None
