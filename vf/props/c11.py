"""C11 -- misuse fails loudly with ValueError instead of returning numbers.

 X  complex-step methods on complex input: the real __call__ of Derivative, Gradient, Jacobian, Hessdiag, Hessian with
    method in {complex, multicomplex} is executed with SYMBOLIC x = xr + i*xi under the assumption that some component has
    xi != 0, and/or with a user function whose value has a SYMBOLIC non-zero imaginary part.  Every feasible path must end
    in ValueError; a path that returns a value is the counterexample (z3 gives the concrete x / coefficients).
    Twin: with xi == 0 everywhere and a real-valued f the call must be able to return.
 V  a function that does not return one value per input element raises ValueError (all classes' _vstack).
 G  integer / string guards for ALL values (CrossHair): multicomplex n > 2, Residue order <= pole_order, unknown Limit path;
    symbolic-length guards of fd_weights_all / fd_derivative / directionaldiff and "fewer steps than the rule needs"
    are exercised over every length within the bound.
"""
from __future__ import annotations

import numpy as np
import z3

from .. import symnum as sn
from .. import tracing as tr
from .. import xhair
from . import common as cm

ID = 'C11'

META = {
    'title': 'misuse raises ValueError',
    'level': 'other',
    'explanation': (
        'Solver-based bounded checking of the real guards: every derivative class is executed with a symbolic complex point '
        '(assumption: some imaginary part is non-zero) and/or a function with a symbolic non-zero imaginary value under the '
        'complex-step methods; all paths are explored with z3 deciding feasibility and every feasible path must raise '
        'ValueError; a returning path is reported with the solver model and replayed on the real library. Integer and string '
        'guards are confirmed over all paths by CrossHair for unbounded values; length guards are enumerated within the bound.'),
    'functions_encoded': ['numdifftools.core.Derivative._eval_first/_raise_error_if_any_is_complex', 'Jacobian._derivative_nonzero_order',
                          'Gradient/Hessdiag/Hessian.__call__', 'numdifftools.finite_difference.LogRule._multicomplex_middle_name/_apply/'
                          '_vstack', 'LogJacobianRule._vstack', 'numdifftools.limits._Limit._vstack, Residue.__init__, '
                          'CStepGenerator._check_path', 'numdifftools.fornberg.fd_weights_all/fd_derivative', 'numdifftools.core.directionaldiff'],
    'bounds': 'dimension 1..3; classes x {complex, multicomplex} x {complex x, complex-valued f, both}; array lengths <= 8 for the '
              'length guards; integer guards unbounded',
    'outside_claim': ['functions that become complex only for some real x (data-dependent)', 'dimension > 3'],
    'stubs': ['module global np -> symbolic numpy proxy (np.iscomplex of a symbolic complex value is the term im != 0)'],
    'assumptions': ['a value is complex when its imaginary part is non-zero (numpy.iscomplex semantics)'],
    'timeout_ms': {'quick': 60000, 'thorough': 120000},
}

CLASSES = ('Derivative', 'Gradient', 'Jacobian', 'Hessdiag', 'Hessian')


def jobs(tier, seed):
    out = [('crosshair-guards', dict(kind='xh', cls='', method='', dim=0, case=''))]
    for cls in CLASSES:
        for method in ('complex', 'multicomplex'):
            for dim in (1, 2, 3):
                for case in ('complex-x', 'complex-f', 'both'):
                    out.append(('%s-%s-d%d-%s' % (cls, method, dim, case), dict(kind='cx', cls=cls, method=method, dim=dim, case=case)))
            # every derivative order the method accepts (the complex rule reads f(x0) for n % 4 == 0) and full_output=True
            for case in ('complex-x', 'complex-f'):
                for fo in (False, True):
                    ns = ((1,) if cls != 'Derivative' else ((1, 2, 3, 4, 5, 8) if method == 'complex' else (1, 2)))
                    for n in ns:
                        if n == 1 and not fo:
                            continue
                        out.append(('%s-%s-n%d-%s-%s' % (cls, method, n, case, 'fo' if fo else 'nofo'),
                                    dict(kind='cx', cls=cls, method=method, dim=2 if cls != 'Derivative' else 1, case=case, n=n, fo=fo)))
    out.append(('size-mismatch', dict(kind='size', cls='', method='', dim=0, case='')))
    out.append(('length-guards', dict(kind='lengths', cls='', method='', dim=0, case='')))
    return out


def run_job(job, kind, cls, method, dim, case, n=1, fo=False):
    if kind == 'xh':
        return xhair.absorb(job, 'guards_spec.py', 'C11:xh')
    if kind == 'cx':
        return complex_misuse(job, cls, method, dim, case, n, fo)
    if kind == 'size':
        return size_mismatch(job)
    return length_guards(job)


def _user_fun(cls, dim, fi):
    """f with value (real part) + i*fi*(something): fi symbolic imaginary scale (or 0.0)"""
    def f(x, *a, **k):
        xx = x if (np.ndim(x) or cls == 'Derivative') else [x]
        if cls == 'Derivative':
            val = x * x * 0.5 + x
            return val + (val * 0.0 + 1.0) * sn.SymC(0.0, fi) if sn.is_sym(fi) else val
        acc = 0.25
        for j in range(dim):
            acc = acc + xx[j] * xx[j] * (0.5 + j) + xx[j]
        if cls == 'Jacobian':
            v = [acc, acc * 2.0]
            if sn.is_sym(fi):
                v = [v[0] + sn.SymC(0.0, fi), v[1] + sn.SymC(0.0, fi)]
            out = np.empty(2, dtype=object)
            out[0], out[1] = v
            return sn.normalize(out.view(sn.SymArr))
        return acc + sn.SymC(0.0, fi) if sn.is_sym(fi) else acc
    return f


def complex_misuse(job, cls, method, dim, case, n=1, fo=False):
    nd = cm.nd_mods()['nd']
    xr = [0.5, -0.75, 1.25][:dim]
    xi = [sn.real_var('xi%d' % j) for j in range(dim)]
    fi = sn.real_var('fi')
    assume = []
    if case in ('complex-x', 'both'):
        assume.append(z3.Or(*[v.t != 0 for v in xi]))
        x = np.empty(dim, dtype=object)
        for j in range(dim):
            x[j] = sn.SymC(xr[j], xi[j])
        x = x.view(sn.SymArr)
    else:
        x = np.array(xr)
    if case in ('complex-f', 'both'):
        assume.append(fi.t != 0)
        f = _user_fun(cls, dim, fi)
    else:
        f = _user_fun(cls, dim, 0.0)
    if cls == 'Derivative' and dim == 1:
        x = x[0] if isinstance(x, np.ndarray) else x

    extra_kw = dict(full_output=fo)
    if cls == 'Derivative':
        extra_kw['n'] = n

    def harness():
        with tr.traced(), sn.abstract_division(products=True), cm.quiet():
            gen = nd.MinStepGenerator(base_step=0.25, step_ratio=2.0, num_steps=3 + (n - 1) // 2, step_nom=1.0)
            return getattr(nd, cls)(f, step=gen, method=method, **extra_kw)(x)
    ex = sn.Explorer(harness, assumptions=assume, max_paths=200, timeout_ms=20000, catch=(Exception,))
    paths = list(ex.paths())
    job.absorb_explorer(ex)
    if not paths:
        job.error('no feasible path')
    for p in paths:
        if isinstance(p.exc, ValueError):
            job.confirm('raises ValueError', True)
            continue
        if p.exc is not None:
            if isinstance(p.exc, sn.Unsupported):
                raise p.exc
            job.violation('other-exception', dict(key='C11:%s:%s:%s:raises-%s' % (cls, method, case, type(p.exc).__name__), kind='cx',
                                                  exc=repr(p.exc)[:300], model=_model(p.conds())))
            continue
        job.confirm('raises ValueError', False)
        job.violation('returned', dict(key='C11:%s:%s:%s:returned-a-value' % (cls, method, case), kind='cx', model=_model(p.conds())))
    # twin: the real-input path can return (the assumptions are what forces the error)
    def harness_ok():
        with tr.traced(), sn.abstract_division(products=True), cm.quiet():
            gen = nd.MinStepGenerator(base_step=0.25, step_ratio=2.0, num_steps=3 + (n - 1) // 2, step_nom=1.0)
            xx = np.array(xr) if not (cls == 'Derivative' and dim == 1) else xr[0]
            return getattr(nd, cls)(_user_fun(cls, dim, 0.0), step=gen, method=method, **extra_kw)(xx)
    ok = [q for q in sn.Explorer(harness_ok, max_paths=50, catch=(Exception,)).paths() if q.exc is None]
    if ok:
        job.twins_ok += 1
    else:
        job.twins_bad += 1
        job.error('twin: proper real input does not return for %s/%s' % (cls, method))


def _model(conds):
    s = z3.Solver()
    s.set('timeout', 10000)
    s.add(*conds)
    if str(s.check()) == 'sat':
        from ..core import model_to_dict
        return model_to_dict(s.model())
    return {}


def size_mismatch(job):
    nd = cm.nd_mods()['nd']
    for cls in ('Derivative',):
        for method in ('central', 'forward', 'complex'):
            # elementwise contract broken: returns 2 values for 3 inputs
            def bad(x):
                return np.asarray(x)[:2] * 1.0
            try:
                with cm.quiet():
                    r = nd.Derivative(bad, method=method)(np.array([1.0, 2.0, 3.0]))
                job.violation('size', dict(key='C11:size-mismatch:%s:returned' % method, kind='size', method=method))
            except ValueError:
                job.confirm('wrong-size output raises ValueError (%s)' % method, True)
            except Exception as e:  # noqa
                job.violation('size', dict(key='C11:size-mismatch:%s:other-exception' % method, kind='size', method=method, exc=repr(e)[:200]))
    # symbolic version: the _vstack size check on symbolic data
    fd, lim = cm.nd_mods()['fd'], cm.nd_mods()['lim']
    seq = [sn.real_vars('s%d' % i, (2,)) for i in range(3)]
    for fn in (fd.LogRule._vstack, lim._Limit._vstack):
        def harness():
            with tr.traced():
                return fn(seq, [np.ones(3) * 0.5 ** i for i in range(3)])
        ps = list(sn.Explorer(harness, max_paths=8, catch=(Exception,)).paths())
        if not job.confirm('_vstack size check', bool(ps) and all(isinstance(p.exc, ValueError) for p in ps)):
            job.violation('vstack', dict(key='C11:vstack-size-check', kind='size', method=fn.__qualname__))


def length_guards(job):
    mods = cm.nd_mods()
    fb, core, fd, nd = mods['fb'], mods['core'], mods['fd'], mods['nd']
    for m in range(1, 9):
        x = np.linspace(0, 1, m)
        for n in range(0, 10):
            should_raise = n >= m
            try:
                fb.fd_weights_all(x, 0.3, n)
                raised = False
            except ValueError:
                raised = True
            except Exception as e:  # noqa
                raised = repr(e)
            if not job.confirm('fd_weights_all guard m=%d n=%d' % (m, n), raised is should_raise):
                job.violation('fdw', dict(key='C11:fd_weights_all-guard', kind='len', m=m, n=n, raised=str(raised)))
        for lf in sorted(set(range(max(1, m - 2), m + 3)) | {2 * m, 3 * m, 5 * m}):      # also whole multiples of len(x)
            if lf == m:
                continue
            try:
                fb.fd_derivative(np.ones(lf), x, 1 if m > 1 else 0, 1)
                job.violation('fdd', dict(key='C11:fd_derivative-length-guard', kind='len', m=m, n=lf))
            except ValueError:
                job.confirm('fd_derivative length guard', True)
            except Exception as e:  # noqa
                job.violation('fdd', dict(key='C11:fd_derivative-length-guard', kind='len', m=m, n=lf, raised=repr(e)[:100]))
        for lv in range(1, 9):
            if lv == m:
                continue
            try:
                core.directionaldiff(lambda t: np.sum(t), np.ones(m), np.ones(lv))
                job.violation('dd', dict(key='C11:directionaldiff-size-guard', kind='len', m=m, n=lv))
            except ValueError:
                job.confirm('directionaldiff size guard', True)
            except Exception as e:  # noqa
                job.violation('dd', dict(key='C11:directionaldiff-size-guard', kind='len', m=m, n=lv, raised=repr(e)[:100]))
    # fewer steps than the rule needs
    for method in ('central', 'forward', 'backward', 'complex'):
        for n in (1, 2, 3, 4):
            for order in (2, 4):
                rule = fd.LogRule(n=n, method=method, order=order)
                need = rule.rule(2.0).size
                for c in (1, 2, 3):
                    for k in range(1, need + 2):
                        # k evaluations of a function of c elements (one row per step, one column per element)
                        seq = [np.ones(c) * 0.1 * i for i in range(k)]
                        steps = [np.ones(c) * 0.5 ** i for i in range(k)]
                        try:
                            rule.apply(seq, steps, 2.0)
                            raised = False
                        except ValueError:
                            raised = True
                        if not job.confirm('too-few-steps guard', raised == (k <= need - 1)):
                            job.violation('steps', dict(key='C11:too-few-steps-guard', kind='len', m=k, n=need, method=method, c=c, dn=n, order=order))
                # through the public classes: check_num_steps=False lets the user under-provision
                if need - 1 < 1:
                    continue
                for xv in (1.0, np.array([1.0, 2.0, 3.0])):
                    try:
                        with cm.quiet():
                            gen = nd.MinStepGenerator(base_step=0.1, num_steps=need - 1, check_num_steps=False, step_nom=1.0)
                            nd.Derivative(np.exp, step=gen, method=method, n=n, order=order)(xv)
                        job.violation('steps', dict(key='C11:too-few-steps-returned', kind='len', m=need - 1, n=need, method=method, c=int(np.size(xv)),
                                                    dn=n, order=order))
                    except ValueError:
                        job.confirm('Derivative with too few steps raises ValueError', True)
    # multicomplex with n above 2 reached through the public attributes after construction
    for how in ('n', 'method'):
        for n_bad in (3, 4, 6):
            try:
                with cm.quiet():
                    if how == 'n':
                        d = nd.Derivative(np.exp, method='multicomplex', n=2)
                        d(0.5)
                        d.n = n_bad
                    else:
                        d = nd.Derivative(np.exp, method='central', n=n_bad)
                        d(0.5)
                        d.method = 'multicomplex'
                    v = d(0.5)
                job.violation('mc-n', dict(key='C11:multicomplex-n>2-after-setter', kind='len', m=n_bad, n=2, method='multicomplex', how=how, returned=repr(v)[:60]))
            except ValueError:
                job.confirm('multicomplex n>2 set through %s raises ValueError' % how, True)
    for cls in ('Gradient', 'Jacobian', 'Hessdiag'):
        for method in ('central', 'forward', 'complex'):
            for order in (2, 4):
                kw = dict(method=method, order=order)
                fun = (lambda x: np.sum(np.exp(x))) if cls != 'Jacobian' else (lambda x: np.exp(x))
                probe = getattr(nd, cls)(fun, **kw)
                need = probe.fd_rule.rule(2.0).size if hasattr(probe, 'fd_rule') else None
                if need is None or need - 1 < 1:
                    continue
                try:
                    with cm.quiet():
                        gen = nd.MinStepGenerator(base_step=0.1, num_steps=need - 1, check_num_steps=False, step_nom=1.0)
                        getattr(nd, cls)(fun, step=gen, **kw)(np.array([1.0, 2.0, 3.0]))
                    job.violation('steps', dict(key='C11:too-few-steps-returned:%s' % cls, kind='len', m=need - 1, n=need, method=method, c=3,
                                                dn=0, order=order, cls=cls))
                except ValueError:
                    job.confirm('%s with too few steps raises ValueError' % cls, True)


# --------------------------------------------------------------------------
def replay(cex):
    nd = cm.nd_mods()['nd']
    kind = cex.get('kind')
    if kind == 'crosshair':
        return xhair.replay_crosshair(cex)
    cfg = cex['config']
    if kind == 'cx':
        cls, method, dim, case = cfg['cls'], cfg['method'], cfg['dim'], cfg['case']
        kw = dict(full_output=cfg.get('fo', False))
        if cls == 'Derivative':
            kw['n'] = cfg.get('n', 1)
        asg = cm.assignment_from_model(cex.get('model', {}))
        xr = [0.5, -0.75, 1.25][:dim]
        xi = [float(asg.get('xi%d' % j, 0)) for j in range(dim)]
        if case in ('complex-x', 'both') and not any(xi):
            xi[0] = 0.5
        fiv = float(asg.get('fi', 0.7)) or 0.7
        x = np.array(xr, dtype=complex) + 1j * np.array(xi) if case in ('complex-x', 'both') else np.array(xr)
        cf = case in ('complex-f', 'both')

        def f(x):
            if cls == 'Derivative':
                v = x * x * 0.5 + x
                return v + 1j * fiv if cf else v
            acc = 0.25 + sum(x[j] * x[j] * (0.5 + j) + x[j] for j in range(dim))
            if cls == 'Jacobian':
                v = np.array([acc, acc * 2.0])
                return v + 1j * fiv if cf else v
            return acc + 1j * fiv if cf else acc
        xx = x[0] if (cls == 'Derivative' and dim == 1) else x
        try:
            with cm.quiet():
                r = getattr(nd, cls)(f, method=method, **kw)(xx)
                if kw['full_output']:
                    r = r[0]
        except ValueError:
            return False, 'raises ValueError'
        except Exception as e:  # noqa
            return True, '%s(method=%s) with %s raises %s (not ValueError): %s' % (cls, method, case, type(e).__name__, e)
        return True, '%s(method=%s, %s) with %s returned %r instead of raising ValueError' % (cls, method, kw, case, np.ravel(r)[:3])
    if kind in ('size', 'len'):
        return True, 'guard missing: %s' % {k: v for k, v in cex.items() if k in ('key', 'm', 'n', 'method', 'raised', 'exc')}
    return None, 'unknown kind'
