"""C15 -- fd_weights_all / fd_weights are the exact Lagrange-derivative weights.

The real ``fd_weights_all`` (wrapper + ``_fd_weights_all`` recursion) is executed
  (S) on fully symbolic nodes x_0..x_{m-1} and symbolic x0 (rational-function values carried as
      numerator/denominator pairs), m <= 4: for every row k and monomial degree d < m
          sum_v w[k, v] * x_v**d == d!/(d-k)! * x0**(d-k)          under distinct(x)
  (C) on concrete rational node sets (uniform, Chebyshev-like, clustered, permuted, one-sided, seeded
      random), m = 5..14, with SYMBOLIC x0 and a SYMBOLIC polynomial p of degree m-1:
          sum_v w[k, v] * p(x_v) == p^(k)(x0)      for all x0 and all coefficients
Both are polynomial identities decided by z3; fd_weights must be row n; n >= len(x) raises ValueError.
"""
from __future__ import annotations

import math
from fractions import Fraction

import numpy as np
import z3

from .. import symnum as sn
from .. import tracing as tr
from . import common as cm

ID = 'C15'

META = {
    'title': 'fd_weights are the Lagrange-derivative weights',
    'level': 'other',
    'explanation': (
        'Solver-based bounded checking of the real Fornberg recursion: fd_weights_all is executed on symbolic nodes and a '
        'symbolic expansion point (m<=4, rational functions as num/den pairs) and on concrete rational node sets with symbolic '
        'x0 and a symbolic polynomial (m<=14); the defining moment identities of the Lagrange-derivative weights are polynomial '
        'identities that z3 decides for all nodes / x0 / coefficients. Wrapper facts (transpose, fd_weights = row n, guard).'),
    'functions_encoded': ['numdifftools.fornberg.fd_weights_all', 'numdifftools.fornberg._fd_weights_all',
                          'numdifftools.fornberg.fd_weights'],
    'bounds': 'fully symbolic nodes and x0 for m=2..4, all n<m; concrete rational node sets m=5..14 (uniform, Chebyshev-like, '
              'clustered, one-sided, seeded random, permuted; spacings 1/1024 and 1024 for m=5,7) with symbolic x0 and symbolic polynomial, all n<m (both tiers)',
    'outside_claim': ['floating-point rounding scaled by node conditioning', 'fully symbolic nodes for m>=5 (does not finish)'],
    'stubs': ['module global np -> symbolic numpy proxy (the float weights buffer is widened to object dtype)'],
    'assumptions': ['exact arithmetic', 'nodes pairwise distinct'],
    'timeout_ms': {'quick': 120000, 'thorough': 300000},
}


TINY_STENCILS = {3: [Fraction(-1, 10 ** 9), Fraction(0), Fraction(2, 10 ** 9)],
                 5: [Fraction(-2, 10 ** 9), Fraction(-1, 10 ** 9), Fraction(0), Fraction(3, 2 * 10 ** 9), Fraction(2, 10 ** 9)]}


def node_sets(m, seed):
    rng = np.random.default_rng(seed * 1000 + m)
    F = Fraction
    sets = {
        'uniform': [F(i - m // 2, 4) for i in range(m)],
        'cheb': [F(round(math.cos(math.pi * (2 * i + 1) / (2 * m)) * 1024), 1024) for i in range(m)],
        'clustered': [F(1, 2 ** i) for i in range(m)],
        'onesided': [F(i * i + 1, 8) for i in range(m)],
        'random': sorted({F(int(rng.integers(-4096, 4096)), 1024) for _ in range(3 * m)})[:m],
        # spacings far from 1: the rows of the weight table then differ by many orders of magnitude (row k scales like h**-k)
        'tiny': [F(i - m // 2, 1024) for i in range(m)],
        'wide': [F((i - m // 2) * 1024) for i in range(m)],
    }
    perm = list(sets['uniform'])
    rng.shuffle(perm)
    sets['permuted'] = perm
    for k, v in sets.items():
        assert len(set(v)) == m, (k, v)
    return sets


def jobs(tier, seed):
    out = []
    for m in (2, 3, 4):
        out.append(('symbolic-m%d' % m, dict(kind='symbolic', m=m, family='', seed=seed)))
    mmax = 14
    for m in range(5, mmax + 1):
        for fam in ('uniform', 'cheb', 'clustered', 'onesided', 'random', 'permuted'):
            out.append(('concrete-m%d-%s' % (m, fam), dict(kind='concrete', m=m, family=fam, seed=seed)))
    for m in (5, 7):
        for fam in ('tiny', 'wide'):
            out.append(('concrete-m%d-%s' % (m, fam), dict(kind='concrete', m=m, family=fam, seed=seed)))
    out.append(('integer-typed-nodes-witness', dict(kind='intwitness', m=5, family='', seed=seed)))
    for m in (2, 3, 6):
        out.append(('wrappers-m%d' % m, dict(kind='wrappers', m=m, family='uniform', seed=seed)))
    for m in (3, 5):
        # non-uniform stencils with tiny spacings around 0 (what a 'looks equidistant' shortcut would mistake for a classical stencil)
        out.append(('wrappers-m%d-tiny' % m, dict(kind='wrappers', m=m, family='tiny-nonuniform', seed=seed)))
    return out


def run_job(job, kind, m, family, seed):
    fb = cm.nd_mods()['fb']
    if kind == 'symbolic':
        return symbolic(job, fb, m)
    if kind == 'concrete':
        return concrete(job, fb, m, family, seed)
    if kind == 'intwitness':
        bad = int_witness_failures(fb)
        if not job.confirm('integer-typed nodes / x0 give the exact rational weights (concrete runs)', not bad):
            job.violation('int', dict(key='C15:integer-typed-nodes', kind='intwitness', detail=bad[0]))
        return
    return wrappers(job, fb, m, family or 'uniform')


def int_witness_failures(fb):
    """CONCRETE witness runs (not solver evidence): nodes and x0 given as Python ints / lists / tuples / int arrays, small and
    large spacings (products of node differences beyond 2**63), against the exact rational Lagrange weights"""
    bad = []
    sets = [list(range(-2, 3)), [-200000, -100000, 0, 100000, 200000], [-4 * 10 ** 9, 0, 4 * 10 ** 9], list(range(0, 1400, 100)),
            (0, 1, 3, 7), [5, -3, 2, 11, 0, -8]]
    for nodes in sets:
        m = len(nodes)
        for x0 in (nodes[m // 2], nodes[0] - 1, 0):
            for conv in (lambda v: v, lambda v: np.array(v), lambda v: [float(t) for t in v]):
                arg = conv(list(nodes)) if not isinstance(nodes, tuple) else conv(nodes)
                n = min(m - 1, 3)
                try:
                    with np.errstate(all='ignore'):
                        w = np.asarray(fb.fd_weights_all(arg, x0, n), dtype=float)
                except Exception as e:  # noqa
                    bad.append('fd_weights_all(%r, %r, %d) raises %s: %s' % (arg, x0, n, type(e).__name__, e))
                    continue
                ew = exact_weights([Fraction(v) for v in nodes], Fraction(x0), n)
                for k in range(n + 1):
                    ref = np.array([float(v) for v in ew[k]])
                    scale = np.max(np.abs(ref)) + 1e-300
                    if w.shape != (n + 1, m) or np.max(np.abs(w[k] - ref)) > 1e-9 * scale:
                        bad.append('row %d of fd_weights_all(%r, x0=%r) = %s, exact Lagrange weights %s' % (k, arg, x0, w[k].tolist(), ref.tolist()))
                        break
    return bad


def symbolic(job, fb, m):
    xs = [z3.Real('x%d' % i) for i in range(m)]
    x0 = z3.Real('x0')
    nodes = np.empty(m, dtype=object)
    for i in range(m):
        nodes[i] = sn.SymQ(xs[i])
    nodes = nodes.view(sn.SymArr)
    distinct = [xs[i] != xs[j] for i in range(m) for j in range(i)]
    for n in range(0, m):
        sn.SymQ.NONZERO.clear()

        def harness():
            with tr.traced():
                return fb.fd_weights_all(nodes, sn.SymQ(x0), n)
        ex = sn.Explorer(harness, assumptions=distinct, max_paths=400, timeout_ms=20000)
        for p in ex.paths():
            if p.exc is not None:
                if isinstance(p.exc, sn.Unsupported):
                    raise p.exc
                job.violation('raises', dict(key='C15:raises:%s' % type(p.exc).__name__, kind='sym', m=m, n=n, exc=repr(p.exc)[:200]))
                continue
            w = np.asarray(p.result)
            conds = p.conds()
            if not job.confirm('shape', w.shape == (n + 1, m)):
                job.violation('shape', dict(key='C15:shape', kind='shape', m=m, n=n, got=list(w.shape)))
                continue
            # every denominator the recursion divided by is non-zero when the nodes are distinct
            for dterm in list(sn.SymQ.NONZERO)[:60]:
                job.prove('denominator-nonzero', dterm != 0, conds, dict(key='C15:division-by-zero', kind='sym', m=m, n=n))
            for k in range(n + 1):
                for d in range(m):
                    lhs = sn.SymQ(z3.RealVal(0))
                    for v in range(m):
                        lhs = lhs + sn.SymQ.of(w[k, v]) * (sn.SymQ(xs[v]) ** d)
                    rhs = sn.SymQ(sn.ratval(math.perm(d, k)) * sn._pow_term(x0, d - k)) if d >= k else sn.SymQ(z3.RealVal(0))
                    job.prove('moment m=%d n=%d row=%d deg=%d' % (m, n, k, d), lhs.eq_term(rhs), conds,
                              dict(key='C15:weights-not-lagrange', kind='sym', m=m, n=n, row=k, deg=d))
        job.absorb_explorer(ex)
    # twin: with a repeated node allowed the distinctness assumption is what makes it hold; and weights depend on x0
    job.twin('assumptions satisfiable', distinct)


def concrete(job, fb, m, family, seed):
    nodes_q = node_sets(m, seed)[family]
    x0 = sn.real_var('x0')
    b = [sn.real_var('b%d' % d) for d in range(m)]
    nodes = sn.SymArr([sn.const(v) for v in nodes_q])
    nmax = m - 1

    def harness():
        with tr.traced():
            return fb.fd_weights_all(nodes, x0, nmax)
    ex = sn.Explorer(harness, max_paths=300, timeout_ms=20000)
    paths = list(ex.paths())
    job.absorb_explorer(ex)
    pvals = [cm.poly_fun(b)(sn.const(v)) for v in nodes_q]
    w = None
    for p in paths:
        if p.exc is not None:
            if isinstance(p.exc, sn.Unsupported):
                raise p.exc
            job.violation('raises', dict(key='C15:raises:%s' % type(p.exc).__name__, kind='concrete', m=m, family=family, seed=seed,
                                         exc=repr(p.exc)[:200]))
            continue
        w = np.asarray(p.result)
        if not job.confirm('shape', w.shape == (nmax + 1, m)):
            job.violation('shape', dict(key='C15:shape', kind='shape', m=m, n=nmax, got=list(w.shape)))
            return
        for k in range(nmax + 1):
            lhs = None
            for v in range(m):
                t = w[k, v] * pvals[v]
                lhs = t if lhs is None else lhs + t
            rhs = cm.poly_deriv_at(b, k, x0)
            diff = z3.simplify(sn.lift(lhs) - sn.lift(rhs), som=True)
            job.prove('apply-to-polynomial m=%d row=%d' % (m, k), diff == 0, p.conds(),
                      dict(key='C15:weights-not-lagrange', kind='concrete', m=m, family=family, row=k, seed=seed))
    if w is None or len(paths) != 1:
        return          # the twin / validation below assume the single fork-free trace of the recursion
    # twin: degree m polynomial is NOT reproduced (the check can see a wrong weight)
    bm = sn.real_var('bm')
    extra = [cm.poly_fun(b + [bm])(sn.const(v)) for v in nodes_q]
    lhs = None
    for v in range(m):
        t = w[1, v] * extra[v]
        lhs = t if lhs is None else lhs + t
    rhs = cm.poly_deriv_at(b + [bm], 1, x0)
    job.twin('degree m not reproduced', [z3.simplify(sn.lift(lhs) - sn.lift(rhs), som=True) != 0])
    # validation against the float library at a random x0
    rng = np.random.default_rng(m)
    xv = Fraction(int(rng.integers(-512, 512)), 256)
    wf = fb.fd_weights_all(np.array([float(v) for v in nodes_q]), float(xv), nmax)
    ws = sn.evaluate(w, {'x0': xv})
    scale = np.max(np.abs(wf), axis=1, keepdims=True) + 1e-300
    if np.max(np.abs(np.array(ws, dtype=float) - wf) / scale) > 1e-6:
        job.error('trace validation mismatch for %s m=%d' % (family, m))
    job.validated += 1


def wrappers(job, fb, m, family='uniform'):
    nodes_q = node_sets(max(m, 5), 0)['uniform'][:m] if family == 'uniform' else TINY_STENCILS[m]
    x0 = sn.real_var('x0')
    nodes = sn.SymArr([sn.const(v) for v in nodes_q])
    for n in range(m):
        def h_all():
            with tr.traced():
                return fb.fd_weights_all(nodes, x0, n)

        def h_one():
            with tr.traced():
                return fb.fd_weights(nodes, x0, n)
        wa = np.asarray(sn.run_single(h_all).result)
        job.paths += 1
        # fd_weights may branch on the data (e.g. x0 on a node): every feasible path must return row n
        exw = sn.Explorer(h_one, max_paths=64, timeout_ms=20000)
        for p in exw.paths():
            if p.exc is not None:
                if isinstance(p.exc, sn.Unsupported):
                    raise p.exc
                job.violation('fd_weights-raises', dict(key='C15:fd_weights-raises', kind='wrapper', m=m, n=n, exc=repr(p.exc)[:200]))
                continue
            w1 = np.asarray(p.result)
            ok = w1.shape == (m,) and wa.shape == (n + 1, m)
            if not job.confirm('fd_weights shape', ok):
                job.violation('fd_weights-shape', dict(key='C15:fd_weights-shape', kind='wrapper', m=m, n=n))
                continue
            for v in range(m):
                job.prove('fd_weights is row n [m=%d n=%d v=%d]' % (m, n, v),
                          z3.simplify(sn.lift(w1[v]) - sn.lift(wa[n, v]), som=True) == 0, p.conds(),
                          dict(key='C15:fd_weights-not-row-n', kind='wrapper', m=m, n=n, nodes=[str(q) for q in nodes_q]))
        job.absorb_explorer(exw)
    # results of earlier calls must stay valid after later calls with the same sizes (no shared work buffer)
    xa, xb = sn.real_var('x0a'), sn.real_var('x0b')
    for n in range(min(m, 3)):
        def h_two():
            with tr.traced():
                first = fb.fd_weights_all(nodes, xa, n)
                keep = [[first[k, v] for v in range(m)] for k in range(n + 1)]
                row_first = fb.fd_weights(nodes, xa, n)
                fb.fd_weights_all(nodes, xb, n)
                fb.fd_weights(nodes, xb, n)
                return first, keep, row_first
        ex2 = sn.Explorer(h_two, max_paths=64, timeout_ms=20000)
        for p in ex2.paths():
            if p.exc is not None:
                if isinstance(p.exc, sn.Unsupported):
                    raise p.exc
                job.violation('fd_weights-raises', dict(key='C15:fd_weights-raises', kind='wrapper', m=m, n=n, exc=repr(p.exc)[:200]))
                continue
            first, keep, row_first = p.result
            same = all(z3.is_true(z3.simplify(sn.lift(np.asarray(first)[k, v]) == sn.lift(keep[k][v]))) for k in range(n + 1) for v in range(m))
            if not job.confirm('earlier result unchanged by a later call [m=%d n=%d]' % (m, n), bool(same)):
                job.violation('aliasing', dict(key='C15:result-aliases-internal-buffer', kind='alias', m=m, n=n))
            for v in range(m):
                job.prove('earlier fd_weights row unchanged by a later call [m=%d n=%d v=%d]' % (m, n, v),
                          z3.simplify(sn.lift(np.asarray(row_first)[v]) - sn.lift(keep[n][v]), som=True) == 0, p.conds(),
                          dict(key='C15:fd_weights-not-row-n', kind='wrapper', m=m, n=n))
        job.absorb_explorer(ex2)
    # guard: n >= len(x) must raise ValueError
    for n in (m, m + 1):
        def h_bad():
            with tr.traced():
                return fb.fd_weights_all(nodes, x0, n)
        ex = sn.Explorer(h_bad, max_paths=4)
        ps = list(ex.paths())
        raised = all(isinstance(p.exc, ValueError) for p in ps) and ps
        if not job.confirm('guard n>=len(x)', bool(raised)):
            job.violation('guard', dict(key='C15:guard-missing', kind='guard', m=m, n=n))


# --------------------------------------------------------------------------
def exact_weights(nodes, x0, n):
    """independent oracle: Lagrange-derivative weights by exact rational linear algebra (Vandermonde solve)"""
    m = len(nodes)
    # solve sum_v w[k,v] x_v^d = d!/(d-k)! x0^(d-k), d=0..m-1
    A = [[Fraction(x) ** d for x in nodes] for d in range(m)]
    out = []
    for k in range(n + 1):
        rhs = [Fraction(math.perm(d, k)) * Fraction(x0) ** (d - k) if d >= k else Fraction(0) for d in range(m)]
        M = [row[:] + [r] for row, r in zip(A, rhs)]
        for c in range(m):
            piv = next(r for r in range(c, m) if M[r][c] != 0)
            M[c], M[piv] = M[piv], M[c]
            pv = M[c][c]
            M[c] = [v / pv for v in M[c]]
            for r in range(m):
                if r != c and M[r][c] != 0:
                    f = M[r][c]
                    M[r] = [a - f * b_ for a, b_ in zip(M[r], M[c])]
        out.append([M[r][m] for r in range(m)])
    return out


def replay(cex):
    fb = cm.nd_mods()['fb']
    cfg = cex['config']
    kind = cex.get('kind')
    if kind == 'intwitness':
        bad = int_witness_failures(fb)
        return (True, bad[0]) if bad else (False, 'integer-typed nodes give the exact weights')
    asg = cm.assignment_from_model(cex.get('model', {}))
    m = cfg['m']
    if kind in ('sym', 'shape') and cfg['kind'] == 'symbolic':
        nodes = [float(asg.get('x%d' % i, i)) for i in range(m)]
        if len(set(nodes)) < m:
            nodes = [float(i) * 0.75 - 1 for i in range(m)]
        x0 = float(asg.get('x0', 0.3))
        n = cex.get('n', m - 1)
    elif cfg['kind'] == 'concrete':
        nodes = [float(v) for v in node_sets(m, cfg['seed'])[cfg['family']]]
        x0 = float(asg.get('x0', 0.3))
        n = m - 1
    else:
        nodes = [float(v) for v in node_sets(max(m, 5), 0)['uniform'][:m]]
        x0 = float(asg.get('x0', 0.3))
        if kind == 'alias':
            n = cex.get('n', 1)
            a = fb.fd_weights_all(np.array(nodes), 0.3, n)
            a_copy = a.copy()
            r = fb.fd_weights(np.array(nodes), 0.3, n)
            r_copy = r.copy()
            fb.fd_weights_all(np.array(nodes), -0.45, n)
            fb.fd_weights(np.array(nodes), -0.45, n)
            if not (np.array_equal(a, a_copy) and np.array_equal(r, r_copy)):
                return True, 'the array returned by fd_weights_all(x, 0.3, %d) changed after calling fd_weights_all(x, -0.45, %d)' % (n, n)
            return False, 'earlier results are unaffected by later calls'
        if kind == 'guard':
            try:
                r = fb.fd_weights_all(np.array(nodes), x0, cex['n'])
            except ValueError:
                return False, 'guard raises ValueError'
            except Exception as e:  # noqa
                return True, 'fd_weights_all(n>=len(x)) raises %s instead of ValueError' % type(e).__name__
            return True, 'fd_weights_all(n=%d, len(x)=%d) returned %r' % (cex['n'], m, r)
        n = cex.get('n', m - 1)
        wa = fb.fd_weights_all(np.array(nodes), x0, n)
        w1 = fb.fd_weights(np.array(nodes), x0, n)
        if w1.shape != (m,) or not np.array_equal(w1, wa[n]):
            return True, 'fd_weights(x, x0, %d) is not row %d of fd_weights_all' % (n, n)
    try:
        w = fb.fd_weights_all(np.array(nodes), x0, n)
    except Exception as e:  # noqa
        return True, 'fd_weights_all raises %s: %s on nodes %s' % (type(e).__name__, e, nodes)
    if w.shape != (n + 1, m):
        return True, 'fd_weights_all returned shape %s, expected %s' % (w.shape, (n + 1, m))
    ew = exact_weights([Fraction(v) for v in nodes], Fraction(x0), n)
    for k in range(n + 1):
        ref = np.array([float(v) for v in ew[k]])
        scale = np.max(np.abs(ref)) + 1e-300
        if np.max(np.abs(w[k] - ref)) > 1e-6 * scale:
            return True, 'row %d of fd_weights_all(%s, x0=%r) = %s, exact Lagrange weights %s' % (k, nodes, x0, w[k], ref)
    return False, 'weights agree with the exact rational Lagrange weights at the model point'
