"""C12 (restricted) -- Bicomplex numbers implement the holomorphic extension.

Components z1 = a + ib, z2 = c + id are SYMBOLIC reals; the real ``Bicomplex`` methods are executed on them.
Oracle (independent of the library): the idempotent decomposition
      F(z1 + j z2) = e1 f(u) + e2 f(v),   u = z1 - i z2,  v = z1 + i z2
  i.e. result.z1 - i*result.z2 == f(u)  and  result.z1 + i*result.z2 == f(v).

 R  ring: + - * neg conjugate dot(size 1) and integer powers through ``_pow_singular`` (exponents -3..5): polynomial /
    rational identities for all a, b, c, d (and all components of the second operand)                       (z3 NRA)
 T  exp, sin, cos, sinh, cosh, expm1: the complex functions are uninterpreted pairs of real functions; the claim is proven
    from the addition theorems instantiated at (z1, +-i z2) (listed in ``assumptions``), expm1 = exp - 1 and the half-angle
    formula; ``log1p`` is proven consistent with the library's own ``log`` of 1 + zeta (log1p(w) = log(1+w),
    log(sqrt(s)) = log(s)/2, regulariser TINY set to 0)                                                      (z3 UF+NRA)
 Z  reduction to the complex function on z2 = 0 (with f(0) values of the axioms)
 P  principal region (a neighbourhood of the positive real axis: Re z1 in [1e-6, 1000], the three other components at most
    Re z1 / 4 in absolute value; for divisors also the mirrored region, which the library maps back by negation):
    log, log2, log10, exp2, sqrt, ** with a real non-integer exponent, ** -1, Bicomplex / Bicomplex, scalar / Bicomplex are
    proven equal to the decomposition oracle on every path of the real code (both branches of the non-invertibility test)
    from the identities of the principal branch listed in ``assumptions`` (TINY set to 0); uninterpreted applications in the
    trace are canonicalised by solver-proven argument equalities (the clip and the complex division of _arg_c are part of
    those queries); tan cot sec csc tanh coth sech csch are proven to be, term for term, the library's own quotient of the
    functions proven in T, so their correctness follows from the division obligations for denominators in that region.
Outside: the inverse functions (arcsin ... arctanh), bicomplex exponents, logaddexp, everything outside the principal region
(branch cuts), the +TINY perturbation, floating-point accuracy.
"""
from __future__ import annotations

from fractions import Fraction

import numpy as np
import z3

from .. import symnum as sn
from .. import tracing as tr
from . import common as cm

ID = 'C12'

META = {
    'title': 'Bicomplex = idempotent-decomposition extension (restricted)',
    'level': 'other',
    'explanation': (
        'Solver-based checking of the real Bicomplex class on four symbolic real components per operand: ring operations and '
        'integer powers are polynomial/rational identities against the idempotent decomposition, decided by z3 for all '
        'component values; exp, sin, cos, sinh, cosh, expm1 are proven equal to the decomposition oracle as consequences of '
        'the instantiated addition theorems with the complex functions uninterpreted (QF_UFNRA); log1p is proven consistent '
        'with the library log of 1+zeta. A formula that is not a consequence of the axioms yields sat and is replayed '
        'numerically against numpy complex functions.'),
    'functions_encoded': ['numdifftools.multicomplex.Bicomplex.__init__/__add__/__radd__/__sub__/__rsub__/__mul__/__rmul__/__neg__/'
                          'conjugate/dot/_pow_singular/exp/sin/cos/sinh/cosh/expm1/log1p/log/mod_c/arg_c/arg_c1p/_arg_c/_coerce/'
                          '__pow__/_pow/__truediv__/__rtruediv__/__getitem__/__setitem__/log2/log10/exp2/sqrt/tan/cot/sec/csc/tanh/coth/sech/csch'],
    'bounds': 'scalar (0-d) operands and shape (2,) operands for the ring operations; integer exponents -3..5; principal region: '
              'Re z1 in [1e-6, 1000], |Im z1|, |Re z2|, |Im z2| <= Re z1 / 4 (and its mirror image for divisors); real exponents 0.5, 1.5, '
              '-0.5, 2.5, 0.25',
    'outside_claim': ['floating-point precision of integer powers / division at negative points: exercised only by 12 concrete '
                      'witness runs (job concrete-witness-negative-base), which are NOT solver evidence',
                      'log, sqrt, real powers and division outside the principal region (branch cuts; on the slice z2=0 the exp(log) round '
                      'trip is proven for either sign of Re z1); the tan family for denominators outside that region; all inverse functions '
                      '(arcsin ... arctanh); bicomplex exponents; logaddexp, logaddexp2',
                      'floating-point accuracy of the component formulas'],
    'stubs': ['module global np -> symbolic numpy proxy', 'complex exp/sin/cos/sinh/cosh/expm1/log/log1p/sqrt -> pairs of '
              'uninterpreted real functions of (re, im); w**p with a fixed real p -> one uninterpreted function per exponent',
              '_TINY -> 0 in the log1p-vs-log and principal-region obligations'],
    'assumptions': ['exp(z1 +- i z2) = exp(z1)(cos z2 +- i sin z2)', 'sin(z1 +- i z2) = sin z1 cosh z2 +- i cos z1 sinh z2',
                    'cos(z1 +- i z2) = cos z1 cosh z2 -+ i sin z1 sinh z2', 'sinh(z1 +- i z2) = sinh z1 cos z2 +- i cosh z1 sin z2',
                    'cosh(z1 +- i z2) = cosh z1 cos z2 +- i sinh z1 sin z2', 'expm1(w) = exp(w) - 1', 'cos(w) - 1 = -2 sin(w/2)^2',
                    'log1p(w) = log(1 + w)', 'log(sqrt(s)) = log(s)/2', 'f(0): exp 1, cos 1, cosh 1, sin 0, sinh 0, expm1 0',
                    'principal region only: log(sqrt(u v)) = (log u + log v)/2 and arctan(z2/z1) = (log v - log u)/(2i) for u = z1 - i z2, '
                    'v = z1 + i z2; exp(A -+ iB) = exp(A)(cos B -+ i sin B); definitions w^p := exp(p log w), 1/w := exp(-log w), '
                    'log2 := log/ln 2, log10 := log/ln 10, exp2(w) := exp(w ln 2)', 'denominators |u|^2, |v|^2 of exact reciprocals are non-zero'],
    'timeout_ms': {'quick': 120000, 'thorough': 300000},
}

FUNCS = ['exp', 'sin', 'cos', 'sinh', 'cosh', 'expm1']


def jobs(tier, seed):
    out = []
    for op in ('add', 'sub', 'rsub', 'mul', 'rmul', 'neg', 'conjugate', 'dot', 'radd', 'iadd', 'isub', 'imul', 'imul-self'):
        out.append(('ring-%s' % op, dict(kind='ring', name=op, k=0)))
    for k in range(-3, 6):
        out.append(('pow-%d' % k, dict(kind='pow', name='pow', k=k)))
    for fn in FUNCS:
        out.append(('func-%s' % fn, dict(kind='func', name=fn, k=0)))
        out.append(('slice-%s' % fn, dict(kind='slice', name=fn, k=0)))
    out.append(('log1p-vs-log', dict(kind='log1p', name='log1p', k=0)))
    out.append(('log-exp-roundtrip-on-slice', dict(kind='logslice', name='log', k=0)))
    # the log family in the principal region (a neighbourhood of the positive real axis): Re z1 > 0, other components <= Re z1 / 4
    for fn in ('log', 'log2', 'log10', 'exp2', 'sqrt', 'reciprocal', 'division', 'division-negative', 'rdivision') + PRINCIPAL_TRIG:
        out.append(('principal-%s' % fn, dict(kind='principal', name=fn, k=0)))
    for i in range(len(RPOWS)):
        out.append(('principal-rpow-%s' % RPOWS[i], dict(kind='principal', name='rpow', k=i)))
    out.append(('ring-array', dict(kind='ring_array', name='mul', k=0)))
    for fn in FUNCS:
        for shp in (1, 2):
            out.append(('func-array-%s-%dd' % (fn, shp), dict(kind='func_array', name=fn, k=shp)))
    out.append(('concrete-witness-negative-base', dict(kind='witness', name='pow', k=0)))
    return out


# ---- complex helpers on pairs of z3 terms ---------------------------------
class C:
    __slots__ = ('r', 'i')

    def __init__(self, r, i):
        self.r, self.i = r, i

    def __add__(self, o):
        return C(self.r + o.r, self.i + o.i)

    def __sub__(self, o):
        return C(self.r - o.r, self.i - o.i)

    def __mul__(self, o):
        if not isinstance(o, C):
            return C(self.r * o, self.i * o)
        return C(self.r * o.r - self.i * o.i, self.r * o.i + self.i * o.r)

    def times_i(self):
        return C(-self.i, self.r)

    def neg(self):
        return C(-self.r, -self.i)

    def eq(self, o):
        return z3.And(z3.simplify(self.r - o.r, som=True) == 0, z3.simplify(self.i - o.i, som=True) == 0)


def cuf(name, z):
    return C(sn.uninterpreted('c' + name + '_re', 2)(z.r, z.i), sn.uninterpreted('c' + name + '_im', 2)(z.r, z.i))


def of_symc(v):
    v = sn.as_symc(v if not isinstance(v, np.ndarray) else v[()])
    return C(sn.lift(v.re), sn.lift(v.im))


def bic(mc, prefix):
    """a Bicomplex with four fresh symbolic real components; returns (object, z1 as C, z2 as C)"""
    a, b, c, d = (sn.real_var(prefix + s) for s in 'abcd')
    z1 = sn.scalar_arr(sn.SymC(a, b))
    z2 = sn.scalar_arr(sn.SymC(c, d))
    obj = mc.Bicomplex(z1, z2)
    return obj, C(a.t, b.t), C(c.t, d.t)


def U(z1, z2):
    return z1 - z2.times_i()      # z1 - i z2


def V(z1, z2):
    return z1 + z2.times_i()      # z1 + i z2


def run_job(job, kind, name, k):
    mc = cm.nd_mods()['mc']
    if kind == 'ring':
        return ring(job, mc, name)
    if kind == 'ring_array':
        return ring_array(job, mc)
    if kind == 'func_array':
        return func_array(job, mc, name, k)
    if kind == 'pow':
        return power(job, mc, k)
    if kind == 'func':
        return func(job, mc, name)
    if kind == 'slice':
        return on_slice(job, mc, name)
    if kind == 'logslice':
        return log_slice(job, mc)
    if kind == 'witness':
        return witness(job)
    if kind == 'principal':
        return principal(job, mc, name, k)
    return log1p(job, mc)


def _rw(t, rewrites):
    """apply the oriented axioms (uninterpreted application -> right-hand side) until nothing changes"""
    # canonical (sum-of-monomials) form everywhere, so that syntactically different but equal polynomial
    # arguments of the uninterpreted functions coincide
    rewrites = [(z3.simplify(a, som=True), z3.simplify(b, som=True)) for a, b in rewrites]
    t = z3.simplify(t, som=True)
    for _ in range(4):
        t2 = z3.simplify(z3.substitute(t, *rewrites), som=True) if rewrites else t
        if z3.eq(t2, t):
            break
        t = t2
    return t


def _decomp_claims(job, res, fu, fv, rewrites, key, extra=None):
    r1, r2 = of_symc(res.z1), of_symc(res.z2)
    info = dict(key=key, kind='bicomplex')
    info.update(extra or {})
    for label, lhs, rhs in (('z1 - i z2 == f(u)', U(r1, r2), fu), ('z1 + i z2 == f(v)', V(r1, r2), fv)):
        dr = z3.simplify(_rw(lhs.r - rhs.r, rewrites), som=True)
        di = z3.simplify(_rw(lhs.i - rhs.i, rewrites), som=True)
        job.prove(label, z3.And(dr == 0, di == 0), [], info)


def ring(job, mc, op):
    with tr.traced():
        x, x1, x2 = bic(mc, 'x')
        y, y1, y2 = bic(mc, 'y')
        s = sn.real_var('s')      # a real scalar operand for the reflected operations
        if op == 'add':
            res, fu, fv = x + y, U(x1, x2) + U(y1, y2), V(x1, x2) + V(y1, y2)
        elif op == 'radd':
            res, fu, fv = s + x, U(x1, x2) + C(s.t, z3.RealVal(0)), V(x1, x2) + C(s.t, z3.RealVal(0))
        elif op == 'sub':
            res, fu, fv = x - y, U(x1, x2) - U(y1, y2), V(x1, x2) - V(y1, y2)
        elif op == 'rsub':
            res, fu, fv = s - x, C(s.t, z3.RealVal(0)) - U(x1, x2), C(s.t, z3.RealVal(0)) - V(x1, x2)
        elif op == 'mul':
            res, fu, fv = x * y, U(x1, x2) * U(y1, y2), V(x1, x2) * V(y1, y2)
        elif op == 'rmul':
            res, fu, fv = s * x, U(x1, x2) * s.t, V(x1, x2) * s.t
        elif op == 'neg':
            res, fu, fv = -x, U(x1, x2).neg(), V(x1, x2).neg()
        elif op == 'conjugate':
            res, fu, fv = x.conjugate(), V(x1, x2), U(x1, x2)
        elif op in ('iadd', 'isub', 'imul', 'imul-self'):
            # augmented assignment (falls back to the binary operator when the class defines no in-place method)
            res = mc.Bicomplex(x.z1, x.z2)
            if op == 'iadd':
                res += y
                fu, fv = U(x1, x2) + U(y1, y2), V(x1, x2) + V(y1, y2)
            elif op == 'isub':
                res -= y
                fu, fv = U(x1, x2) - U(y1, y2), V(x1, x2) - V(y1, y2)
            elif op == 'imul':
                res *= y
                fu, fv = U(x1, x2) * U(y1, y2), V(x1, x2) * V(y1, y2)
            elif op == 'imul-self':
                res *= res
                res *= x
                fu, fv = U(x1, x2) * U(x1, x2) * U(x1, x2), V(x1, x2) * V(x1, x2) * V(x1, x2)
            else:
                res **= 2
                fu, fv = U(x1, x2) * U(x1, x2), V(x1, x2) * V(x1, x2)
        else:
            res, fu, fv = x.dot(y), U(x1, x2) * U(y1, y2), V(x1, x2) * V(y1, y2)
    job.paths += 1
    _decomp_claims(job, res, fu, fv, [], 'C12:ring:%s' % op, dict(op=op))
    _validate(job, mc, op)


def ring_array(job, mc):
    """elementwise on shape (2,) operands"""
    with tr.traced():
        comps = {}
        for nm in ('x', 'y'):
            z1 = np.empty(2, dtype=object)
            z2 = np.empty(2, dtype=object)
            for e in range(2):
                z1[e] = sn.SymC(sn.real_var('%sa%d' % (nm, e)), sn.real_var('%sb%d' % (nm, e)))
                z2[e] = sn.SymC(sn.real_var('%sc%d' % (nm, e)), sn.real_var('%sd%d' % (nm, e)))
            comps[nm] = (z1.view(sn.SymArr), z2.view(sn.SymArr))
        x = mc.Bicomplex(*comps['x'])
        y = mc.Bicomplex(*comps['y'])
        res = x * y + x
        # item assignment of an ordinary number c (= c + j0) and of a Bicomplex element
        w = mc.Bicomplex(comps['x'][0].copy(), comps['x'][1].copy())
        w[0] = 0.75
        w2 = mc.Bicomplex(comps['x'][0].copy(), comps['x'][1].copy())
        w2[1] = y[0]
        w3 = mc.Bicomplex(comps['x'][0].copy(), comps['x'][1].copy())
        w3[np.array([False, True])] = 0.0
    job.paths += 1
    info_s = dict(key='C12:ring:setitem', kind='bicomplex', op='setitem')
    z = lambda t: of_symc(t)  # noqa
    facts = [('w[0] = c gives c + j0', z(np.asarray(w.z1)[0]).eq(C(z3.RealVal('3/4'), z3.RealVal(0))) , z(np.asarray(w.z2)[0]).eq(C(z3.RealVal(0), z3.RealVal(0)))),
             ('w[0] = c leaves w[1]', z(np.asarray(w.z1)[1]).eq(z(comps['x'][0][1])), z(np.asarray(w.z2)[1]).eq(z(comps['x'][1][1]))),
             ('w[1] = y[0]', z(np.asarray(w2.z1)[1]).eq(z(comps['y'][0][0])), z(np.asarray(w2.z2)[1]).eq(z(comps['y'][1][0]))),
             ('w[mask] = 0', z(np.asarray(w3.z1)[1]).eq(C(z3.RealVal(0), z3.RealVal(0))), z(np.asarray(w3.z2)[1]).eq(C(z3.RealVal(0), z3.RealVal(0)))),
             ('w[mask] = 0 leaves the rest', z(np.asarray(w3.z1)[0]).eq(z(comps['x'][0][0])), z(np.asarray(w3.z2)[0]).eq(z(comps['x'][1][0])))]
    for label, c1, c2 in facts:
        job.prove('item assignment: %s' % label, z3.And(c1, c2), [], info_s)
    job.confirm('shape', res.shape == (2,))
    for e in range(2):
        x1, x2 = of_symc(comps['x'][0][e]), of_symc(comps['x'][1][e])
        y1, y2 = of_symc(comps['y'][0][e]), of_symc(comps['y'][1][e])
        r1, r2 = of_symc(np.asarray(res.z1)[e]), of_symc(np.asarray(res.z2)[e])
        job.prove('element %d: u-part' % e, U(r1, r2).eq(U(x1, x2) * U(y1, y2) + U(x1, x2)), [], dict(key='C12:ring:array', kind='bicomplex', op='array'))
        job.prove('element %d: v-part' % e, V(r1, r2).eq(V(x1, x2) * V(y1, y2) + V(x1, x2)), [], dict(key='C12:ring:array', kind='bicomplex', op='array'))


def func_array(job, mc, name, ndim):
    """array-valued arguments are handled elementwise: entry e of f(array) is, term for term, f of the scalar Bicomplex made
    of entry e -- also when some entries have z2 == 0 exactly (first-derivative points) and others do not.  Every path of the
    real code is explored (data-dependent shortcuts such as ``if not z2.any()`` fork)."""
    shape = (3,) if ndim == 1 else (2, 2)
    info = dict(key='C12:func-array:%s' % name, kind='bicomplex', op='array-' + name, k=ndim)
    a, b, c, d = (z3.Real('x' + ch + '0') for ch in 'abcd')

    def harness():
        with tr.traced(extra=[(mc, '_TINY', 0.0)]):
            z1 = np.empty(shape, dtype=object)
            z2 = np.empty(shape, dtype=object)
            for i, idx in enumerate(np.ndindex(shape)):
                z1[idx] = sn.SymC(sn.real_var('xa%d' % i), sn.real_var('xb%d' % i))
                # entry 1 has no j part at all, the others are genuinely bicomplex
                z2[idx] = sn.SymC(sn.const(0), sn.const(0)) if i == 1 else sn.SymC(sn.real_var('xc%d' % i), sn.real_var('xd%d' % i))
            x = mc.Bicomplex(z1.view(sn.SymArr), z2.view(sn.SymArr))
            res = getattr(x, name)()
            each = [getattr(mc.Bicomplex(sn.scalar_arr(z1[idx]), sn.scalar_arr(z2[idx])), name)() for idx in np.ndindex(shape)]
            return res, each
    # principal region for the log family (element-wise), none needed for the entire functions
    pre = []
    if name in ('log', 'sqrt'):
        for i in range(int(np.prod(shape))):
            ai = z3.Real('xa%d' % i)
            pre += [ai >= z3.RealVal('1/1000000'), ai <= 1000] + [z3.And(z3.Real('x%s%d' % (ch, i)) <= ai / 4, z3.Real('x%s%d' % (ch, i)) >= -ai / 4)
                                                                  for ch in 'bcd']
    ex = sn.Explorer(harness, assumptions=pre, max_paths=64, timeout_ms=500)
    npaths = 0
    for path in ex.paths():
        if path.exc is not None:
            if isinstance(path.exc, sn.Unsupported):
                raise path.exc
            job.violation('raises', dict(info, key='C12:func-array:%s:raises' % name, exc=repr(path.exc)[:200]))
            continue
        npaths += 1
        res, each = path.result
        if not job.confirm('shape', np.shape(res.z1) == shape and np.shape(res.z2) == shape):
            job.violation('shape', dict(info, key='C12:func-array:%s:shape' % name, got=list(np.shape(res.z1))))
            continue
        for i, idx in enumerate(np.ndindex(shape)):
            for comp in ('z1', 'z2'):
                g = of_symc(np.asarray(getattr(res, comp))[idx])
                w = of_symc(getattr(each[i], comp))
                if z3.eq(z3.simplify(g.r), z3.simplify(w.r)) and z3.eq(z3.simplify(g.i), z3.simplify(w.i)):
                    job.confirm('entry %s %s is the scalar term' % (idx, comp), True)
                else:
                    job.prove('%s(array)[%s].%s == %s(scalar entry).%s' % (name, idx, comp, name, comp), z3.And(g.r == w.r, g.i == w.i),
                              pre + path.conds(), info)
    job.absorb_explorer(ex)
    job.confirm('at least one path', npaths > 0)


def _cpow(z, k):
    r = C(z3.RealVal(1), z3.RealVal(0))
    for _ in range(k):
        r = r * z
    return r


def power(job, mc, k):
    with tr.traced():
        x, x1, x2 = bic(mc, 'x')
        res = x._pow_singular(k)
    job.paths += 1
    r1, r2 = of_symc(res.z1), of_symc(res.z2)
    u, v = U(x1, x2), V(x1, x2)
    nz = [u.r * u.r + u.i * u.i != 0, v.r * v.r + v.i * v.i != 0]
    info = dict(key='C12:pow:%d' % k, kind='bicomplex', op='pow', k=k)
    if k >= 0:
        job.prove('(z1 - i z2) == u^%d' % k, U(r1, r2).eq(_cpow(u, k)), [], info)
        job.prove('(z1 + i z2) == v^%d' % k, V(r1, r2).eq(_cpow(v, k)), [], info)
    else:
        one = C(z3.RealVal(1), z3.RealVal(0))
        pu, pv = U(r1, r2) * _cpow(u, -k), V(r1, r2) * _cpow(v, -k)
        job.prove('(z1 - i z2) * u^%d == 1' % -k, z3.And(pu.r == 1, pu.i == 0), nz, info)
        job.prove('(z1 + i z2) * v^%d == 1' % -k, z3.And(pv.r == 1, pv.i == 0), nz, info)
    _validate(job, mc, 'pow', k)


def axioms_for(name, z1, z2):
    """instantiated addition theorems: f(z1 -+ i z2) in terms of functions of z1 and z2"""
    E, S, Cc, Sh, Ch = (lambda z, n=n: cuf(n, z) for n in ('exp', 'sin', 'cos', 'sinh', 'cosh'))
    u, v = U(z1, z2), V(z1, z2)
    ax = []

    def eq(a, b):
        # oriented: the uninterpreted application on the left is rewritten into the right-hand side
        ax.append((a.r, b.r))
        ax.append((a.i, b.i))
    if name in ('exp', 'expm1'):
        eq(E(u), E(z1) * (Cc(z2) - S(z2).times_i()))
        eq(E(v), E(z1) * (Cc(z2) + S(z2).times_i()))
    if name == 'sin':
        eq(S(u), S(z1) * Ch(z2) - (Cc(z1) * Sh(z2)).times_i())
        eq(S(v), S(z1) * Ch(z2) + (Cc(z1) * Sh(z2)).times_i())
    if name == 'cos':
        eq(Cc(u), Cc(z1) * Ch(z2) + (S(z1) * Sh(z2)).times_i())
        eq(Cc(v), Cc(z1) * Ch(z2) - (S(z1) * Sh(z2)).times_i())
    if name == 'sinh':
        eq(Sh(u), Sh(z1) * Cc(z2) - (Ch(z1) * S(z2)).times_i())
        eq(Sh(v), Sh(z1) * Cc(z2) + (Ch(z1) * S(z2)).times_i())
    if name == 'cosh':
        eq(Ch(u), Ch(z1) * Cc(z2) - (Sh(z1) * S(z2)).times_i())
        eq(Ch(v), Ch(z1) * Cc(z2) + (Sh(z1) * S(z2)).times_i())
    if name == 'expm1':
        one = C(z3.RealVal(1), z3.RealVal(0))
        for w in (u, v, z1):
            eq(cuf('expm1', w), E(w) - one)
        half = C(z2.r * z3.RealVal('1/2'), z2.i * z3.RealVal('1/2'))
        sh = S(half)
        eq(Cc(z2), one + (sh * sh) * z3.RealVal(-2))
    return ax


def func(job, mc, name):
    def harness():
        with tr.traced():
            x, z1, z2 = bic(mc, 'x')
            return getattr(x, name)(), z1, z2
    # the component formulas have no branches; a data-dependent shortcut (large arguments, ...) forks and is checked per path
    ex = sn.Explorer(harness, max_paths=32, timeout_ms=5000)
    n = 0
    for path in ex.paths():
        if path.exc is not None:
            if isinstance(path.exc, sn.Unsupported):
                raise path.exc
            job.violation('raises', dict(key='C12:func:%s:raises' % name, kind='bicomplex', op=name, exc=repr(path.exc)[:200]))
            continue
        n += 1
        res, z1, z2 = path.result
        job.paths += 1
        u, v = U(z1, z2), V(z1, z2)
        ax = axioms_for(name, z1, z2)
        r1, r2 = of_symc(res.z1), of_symc(res.z2)
        info = dict(key='C12:func:%s' % name, kind='bicomplex', op=name)
        for label, lhs, rhs in (('z1 - i z2 == f(u)', U(r1, r2), cuf(name, u)), ('z1 + i z2 == f(v)', V(r1, r2), cuf(name, v))):
            dr = z3.simplify(_rw(lhs.r - rhs.r, ax), som=True)
            di = z3.simplify(_rw(lhs.i - rhs.i, ax), som=True)
            job.prove(label, z3.And(dr == 0, di == 0), path.conds(), info)
    job.absorb_explorer(ex)
    job.confirm('at least one path', n > 0)
    _validate(job, mc, name)


def on_slice(job, mc, name):
    """z2 = 0: the result is f(z1) + j*0"""
    with tr.traced():
        a, b = sn.real_var('xa'), sn.real_var('xb')
        x = mc.Bicomplex(sn.scalar_arr(sn.SymC(a, b)), 0.0)
        res = getattr(x, name)()
    job.paths += 1
    z1 = C(a.t, b.t)
    zero = C(z3.RealVal(0), z3.RealVal(0))
    one = C(z3.RealVal(1), z3.RealVal(0))
    ax = []

    def eq(p, q):
        ax.extend([(p.r, q.r), (p.i, q.i)])
    eq(cuf('exp', zero), one)
    eq(cuf('cos', zero), one)
    eq(cuf('cosh', zero), one)
    eq(cuf('sin', zero), zero)
    eq(cuf('sinh', zero), zero)
    eq(cuf('expm1', zero), zero)
    eq(cuf('expm1', z1), cuf('exp', z1) - one)
    r1, r2 = of_symc(res.z1), of_symc(res.z2)
    info = dict(key='C12:slice:%s' % name, kind='bicomplex', op=name)
    f1 = cuf(name, z1)
    job.prove('z1 component == f(z1)', z3.And(z3.simplify(_rw(r1.r - f1.r, ax), som=True) == 0,
                                              z3.simplify(_rw(r1.i - f1.i, ax), som=True) == 0), [], info)
    job.prove('z2 component == 0', z3.And(z3.simplify(_rw(r2.r, ax), som=True) == 0, z3.simplify(_rw(r2.i, ax), som=True) == 0), [], info)


def witness_failures():
    """concrete regression witness for a repaired floating-point defect (integer powers / division at negative points);
    exact arithmetic cannot see it, so this is NOT solver evidence and is reported separately"""
    nd = cm.nd_mods()['nd']
    bad = []
    cases = [('x**2', lambda t: t ** 2, lambda x: 2.0), ('x**3', lambda t: t ** 3, lambda x: 6 * x), ('1/x', lambda t: 1 / t, lambda x: 2 / x ** 3),
             ('x**-2', lambda t: t ** -2, lambda x: 6 / x ** 4)]
    for x in (-2.0, -0.5, 1.5):
        for name, f, exact in cases:
            with cm.quiet():
                v = float(nd.Derivative(f, method='multicomplex', n=2)(x))
            if abs(v - exact(x)) > 1e-8 * (1 + abs(exact(x))):
                bad.append("Derivative(%s, method='multicomplex', n=2)(%r) = %r, exact %r" % (name, x, v, exact(x)))
    # array arguments whose elements have bases of both signs: every element as accurate as the scalar call
    xa = np.array([-2.0, 1.5, -0.5, 3.0])
    for name, f, exact in cases + [('(x-1)**3', lambda t: (t - 1.0) ** 3, lambda x: 6 * (x - 1.0))]:
        with cm.quiet():
            va = np.asarray(nd.Derivative(f, method='multicomplex', n=2)(xa), dtype=float)
        ex = np.array([exact(x) for x in xa])
        if va.shape != xa.shape or np.any(np.abs(va - ex) > 1e-8 * (1 + np.abs(ex))):
            bad.append("Derivative(%s, method='multicomplex', n=2)(%r) = %r, exact %r" % (name, xa.tolist(), va.tolist(), ex.tolist()))
    return bad


def witness(job):
    bad = witness_failures()
    if not job.confirm('integer powers and division keep the second-derivative component at negative points (17 concrete runs, scalar and mixed-sign arrays)', not bad):
        job.violation('witness', dict(key='C12:witness:negative-base-power', kind='bicomplex', op='witness', detail=bad[0]))


def log_slice(job, mc):
    """branch logic of log on the slice z2 = 0 (the first-derivative configuration x + ih): exp(log(zeta)) == zeta for
    every z1 = a + ib with a != 0, from: sqrt(w^2) = +-w by the sign of Re w, arctan 0 = 0, exp(log w) = w,
    cos/sin at 0 and at the library's pi, TINY -> 0."""
    import math
    with tr.traced(extra=[(mc, '_TINY', 0.0)]):
        a, b = sn.real_var('xa'), sn.real_var('xb')
        x = mc.Bicomplex(sn.scalar_arr(sn.SymC(a, b)), 0.0)
        lg = x.log()
        back = lg.exp()
    job.paths += 1
    z1 = C(a.t, b.t)
    zero = C(z3.RealVal(0), z3.RealVal(0))
    one = C(z3.RealVal(1), z3.RealVal(0))
    pi = C(sn.ratval(math.pi), z3.RealVal(0))
    ax = []

    def eq(p, q):
        ax.extend([p.r == q.r, p.i == q.i])
    sq = z1 * z1
    root = cuf('sqrt', sq)
    # principal square root of a square
    ax.append(z3.Implies(a.t > 0, z3.And(root.r == z1.r, root.i == z1.i)))
    ax.append(z3.Implies(a.t < 0, z3.And(root.r == -z1.r, root.i == -z1.i)))
    eq(cuf('arctan', zero), zero)
    eq(cuf('exp', cuf('log', root)), root)
    eq(cuf('cos', zero), one)
    eq(cuf('sin', zero), zero)
    eq(cuf('cos', pi), C(z3.RealVal(-1), z3.RealVal(0)))
    eq(cuf('sin', pi), zero)
    eq(cuf('cos', pi.neg()), C(z3.RealVal(-1), z3.RealVal(0)))
    eq(cuf('sin', pi.neg()), zero)
    r1, r2 = of_symc(back.z1), of_symc(back.z2)
    info = dict(key='C12:func:log-slice-roundtrip', kind='bicomplex', op='logslice')
    pre = ax + [a.t != 0]
    job.prove('exp(log(z1 + j0)).z1 == z1', z3.And(r1.r == z1.r, r1.i == z1.i), pre, info)
    job.prove('exp(log(z1 + j0)).z2 == 0', z3.And(r2.r == 0, r2.i == 0), pre, info)
    job.twin('axioms satisfiable', pre)


def log1p(job, mc):
    with tr.traced(extra=[(mc, '_TINY', 0.0)]):
        x, z1, z2 = bic(mc, 'x')
        lhs = x.log1p()
        rhs = (1 + x).log()
    job.paths += 1
    one = C(z3.RealVal(1), z3.RealVal(0))
    w = z1 * z3.RealVal(2) + z1 * z1 + z2 * z2
    s = (one + z1) * (one + z1) + z2 * z2
    ax = []

    def eq(p, q):
        ax.extend([(p.r, q.r), (p.i, q.i)])
    eq(cuf('log1p', w), cuf('log', one + w))
    eq(cuf('log', cuf('sqrt', s)), cuf('log', s) * z3.RealVal('1/2'))
    l1, l2 = of_symc(lhs.z1), of_symc(lhs.z2)
    r1, r2 = of_symc(rhs.z1), of_symc(rhs.z2)
    info = dict(key='C12:func:log1p', kind='bicomplex', op='log1p')
    # arguments of log on both sides: 1 + w and s are the same polynomial (congruence needs the solver)
    same_arg = [(one + w).r == s.r, (one + w).i == s.i]
    job.prove('1 + (2 z1 + z1^2 + z2^2) == (1+z1)^2 + z2^2', z3.And(z3.simplify(same_arg[0], som=True), z3.simplify(same_arg[1], som=True)), [], info)
    job.prove('log1p(zeta).z1 == log(1+zeta).z1', z3.And(_rw(l1.r, ax) == _rw(r1.r, ax), _rw(l1.i, ax) == _rw(r1.i, ax)), [], info)
    job.prove('log1p(zeta).z2 == log(1+zeta).z2', z3.And(l2.r == r2.r, l2.i == r2.i), [], info)
    _validate(job, mc, 'log1p')



# --------------------------------------------------------------------------
# log family in the principal region
# --------------------------------------------------------------------------
RPOWS = [1.5, -0.5, 2.5, 0.25]
PRINCIPAL_TRIG = ('tan', 'cot', 'sec', 'csc', 'tanh', 'coth', 'sech', 'csch')
_REGION_NOTE = 'Re z1 in [1e-6, 1000], |Im z1|, |Re z2|, |Im z2| <= Re z1 / 4'


def _region(z1, z2):
    a = z1.r
    q = z3.RealVal('1/4')
    return [a >= z3.RealVal('1/1000000'), a <= 1000] + [z3.And(w <= a * q, w >= -a * q) for w in (z1.i, z2.r, z2.i)]


def _cdiv(n, d):
    den = d.r * d.r + d.i * d.i
    return C((n.r * d.r + n.i * d.i) / den, (n.i * d.r - n.r * d.i) / den)


def _ratnorm(t):
    """(numerator, denominator) polynomial pair of a z3 real term built from + - * / over variables and uninterpreted
    applications (opaque atoms); None when the term contains anything else (ite, ...)"""
    if z3.is_rational_value(t) or z3.is_algebraic_value(t):
        return sn.SymQ(t)
    if not z3.is_app(t):
        return None
    k = t.decl().kind()
    kids = t.children()
    if k in (z3.Z3_OP_ADD, z3.Z3_OP_MUL, z3.Z3_OP_SUB, z3.Z3_OP_DIV, z3.Z3_OP_UMINUS):
        qs = [_ratnorm(c) for c in kids]
        if any(q is None for q in qs):
            return None
        if k == z3.Z3_OP_UMINUS:
            return -qs[0]
        acc = qs[0]
        for q in qs[1:]:
            acc = acc + q if k == z3.Z3_OP_ADD else acc * q if k == z3.Z3_OP_MUL else acc - q if k == z3.Z3_OP_SUB else acc / q
        return acc
    if k == z3.Z3_OP_UNINTERPRETED:
        return sn.SymQ(t)
    if k == z3.Z3_OP_TO_REAL:
        return _ratnorm(kids[0])
    return None


def _mentions(t, prefix, _seen=None):
    _seen = set() if _seen is None else _seen
    if t.get_id() in _seen:
        return False
    _seen.add(t.get_id())
    if z3.is_app(t):
        if t.decl().name().startswith(prefix):
            return True
        return any(_mentions(ch, prefix, _seen) for ch in t.children())
    return False


def _identically_zero(t):
    """True when t is 0 as a rational function of its atoms (decided by normalisation; denominators are assumed non-zero)"""
    try:
        q = _ratnorm(t)
    except sn.Unsupported:
        return False
    if q is None:
        return False
    n = z3.simplify(q.n, som=True)
    return z3.is_rational_value(n) and n.as_fraction() == 0


class Canon:
    """Semantic, oriented rewriting of uninterpreted applications.  ``rules[fname]`` is a list of (argument as C,
    replacement as C): an application f(X, Y) met in a term (innermost first) is replaced by the replacement when the SOLVER
    proves  pre => (X, Y) == argument  (one query per application and candidate, counted as obligations of the job)."""

    def __init__(self, job, pre, info):
        self.job, self.pre, self.info = job, list(pre), info
        self.rules = {}
        self.memo = {}
        self.eqmemo = {}
        self.unmatched = []

    def rule(self, fname, arg, repl):
        self.rules.setdefault(fname, []).append((arg, repl))

    def _equal(self, X, Y, arg):
        key = (X.get_id(), Y.get_id(), arg.r.get_id(), arg.i.get_id())
        if key not in self.eqmemo:
            self.eqmemo[key] = self._equal_uncached(X, Y, arg)
        return self.eqmemo[key]

    def _resolve_ites(self, t):
        """replace If(c, a, b) by a or b when the solver proves pre => c or pre => not c (the conditions met here are the
        comparisons of the clip in _arg_c and sign tests: cheap queries); counted as solver queries of the job"""
        key = ('ite', t.get_id())
        if key in self.memo:
            return self.memo[key]
        out = t
        if z3.is_app(t) and t.num_args():
            kids = [self._resolve_ites(ch) for ch in t.children()]
            if t.decl().kind() == z3.Z3_OP_ITE:
                c = kids[0]
                for val, pick in ((c, kids[1]), (z3.Not(c), kids[2])):
                    sv = z3.Solver()
                    sv.set('timeout', 20000)
                    sv.add(*self.pre)
                    sv.add(z3.Not(val))
                    self.job.queries += 1
                    if str(sv.check()) == 'unsat':
                        out = pick
                        break
                else:
                    out = z3.If(*kids)
            else:
                out = t.decl()(*kids)
        self.memo[key] = out
        return out

    def _equal_uncached(self, X, Y, arg):
        dx = z3.simplify(X - arg.r, som=True)
        dy = z3.simplify(Y - arg.i, som=True)
        if z3.is_rational_value(dx) and z3.is_rational_value(dy):
            return dx.as_fraction() == 0 and dy.as_fraction() == 0
        # case distinctions decided by the region (clip bounds, signs), then a rational-function identity by normalisation
        X2, Y2 = self._resolve_ites(X), self._resolve_ites(Y)
        if _identically_zero(z3.simplify(X2 - arg.r)) and _identically_zero(z3.simplify(Y2 - arg.i)):
            return True
        s = z3.Solver()
        s.set('timeout', 240000)
        s.add(*self.pre)
        s.add(z3.Not(z3.And(X == arg.r, Y == arg.i)))
        t0 = __import__('time').time()
        r = str(s.check())
        self.job.queries += 1
        self.job.solver_s += __import__('time').time() - t0
        if r == 'unknown':
            # undecided is not "different": the obligation is inconclusive (exit 2), never a silent mismatch
            self.job.n_obl += 1
            self.job.n_inconclusive += 1
            self.job.errors.append('inconclusive argument match (%s): %s' % (r, str(arg.r)[:80]))
        return r == 'unsat'

    def term(self, t):
        key = t.get_id()
        if key in self.memo:
            return self.memo[key]
        if not z3.is_app(t) or t.num_args() == 0:
            self.memo[key] = t
            return t
        kids = [self.term(ch) for ch in t.children()]
        nm = t.decl().name()
        out = None
        if nm.startswith('uf_c') and (nm.endswith('_re') or nm.endswith('_im')) and len(kids) == 2:
            fname = nm[4:-3]
            for arg, repl in self.rules.get(fname, []):
                if self._equal(kids[0], kids[1], arg):
                    out = repl.r if nm.endswith('_re') else repl.i
                    self._hits = getattr(self, '_hits', {})
                    self._hits[fname] = self._hits.get(fname, 0) + 1
                    self.job.n_obl += 1
                    self.job.n_discharged += 1
                    self.job.n_nontrivial += 1
                    break
            if out is None:
                self.unmatched.append(nm)
        if out is None:
            out = t.decl()(*kids) if kids else t
        self.memo[key] = out
        return out

    def c(self, z):
        return C(self.term(z.r), self.term(z.i))

    def memo_used(self, fname):
        return any(fname in self.rules and True for _ in [0]) and getattr(self, '_hits', {}).get(fname, 0) > 0


def _log_rules(cn, y1, y2, tag=''):
    """identities of the principal branch near the positive real axis for the Bicomplex y1 + j y2, whose library logarithm is
    log(sqrt(y1^2 + y2^2)) + j arctan(y2 / y1):
        log(sqrt(u v)) = (log u + log v)/2,     arctan(y2/y1) = (log v - log u)/(2i),    u = y1 - i y2, v = y1 + i y2
    -> (log u, log v, L1, L2) with log u, log v atoms"""
    u, v = U(y1, y2), V(y1, y2)
    lu, lv = cuf('log', u), cuf('log', v)
    half = z3.RealVal('1/2')
    L1 = (lu + lv) * half
    dif = lv - lu
    L2 = C(dif.i * half, -dif.r * half)
    P = y1 * y1 + y2 * y2
    root = cuf('sqrt', P)
    cn.rule('sqrt', P, root)
    cn.rule('log', root, L1)
    cn.rule('arctan', _cdiv(y2, y1), L2)
    return lu, lv, L1, L2


def _pow_rules(cn, L1, L2, pr):
    """exp(A -+ iB) = exp(A)(cos B -+ i sin B) at A = p L1, B = p L2 (A - iB = p log u, A + iB = p log v):
    -> (exp(p log u), exp(p log v)) expressed through the atoms exp(A), cos(B), sin(B)"""
    A, B = L1 * pr, L2 * pr
    EA, CB, SB = cuf('exp', A), cuf('cos', B), cuf('sin', B)
    cn.rule('exp', A, EA)
    cn.rule('cos', B, CB)
    cn.rule('sin', B, SB)
    return EA * (CB - SB.times_i()), EA * (CB + SB.times_i())


def principal(job, mc, name, k):
    """real Bicomplex code on four symbolic components per operand, every feasible path explored; per path the claim
    result.z1 -+ i result.z2 == f(u), f(v) is decided by z3 from the listed identities (complex functions uninterpreted)"""
    one = C(z3.RealVal(1), z3.RealVal(0))
    info = dict(key='C12:principal:%s' % name, kind='bicomplex', op='principal-' + name, k=k)

    def harness():
        with tr.traced(extra=[(mc, '_TINY', 0.0)]):
            x, z1, z2 = bic(mc, 'x')
            y = bic(mc, 'y') if name in ('division', 'division-negative') else None
            if name in ('log', 'log2', 'log10', 'exp2', 'sqrt') + PRINCIPAL_TRIG:
                res = getattr(x, name)()
            elif name == 'reciprocal':
                res = x ** -1
            elif name in ('division', 'division-negative'):
                res = y[0] / x
            elif name == 'rdivision':
                res = 0.75 / x
            else:
                res = x ** RPOWS[k]
            return res, (y[1], y[2]) if y else None
    a, b, c, d = (z3.Real('x' + ch) for ch in 'abcd')
    z1, z2 = C(a, b), C(c, d)
    u, v = U(z1, z2), V(z1, z2)
    if name in PRINCIPAL_TRIG:
        return trig_quotient(job, mc, name)
    negd = name == 'division-negative'
    if negd:
        name = 'division'
    region = _region(z1, z2) if not negd else _region(z1.neg(), z2.neg())
    ex = sn.Explorer(harness, assumptions=region, max_paths=32, timeout_ms=20000)
    npaths = 0
    for path in ex.paths():
        if path.exc is not None:
            if isinstance(path.exc, sn.Unsupported):
                raise path.exc
            job.violation('raises', dict(info, key='C12:principal:%s:raises' % name, exc=repr(path.exc)[:200]))
            continue
        npaths += 1
        res, yy = path.result
        r1, r2 = of_symc(res.z1), of_symc(res.z2)
        pre = region + path.conds()
        cn = Canon(job, pre, info)
        claims = []
        if name in ('log', 'log2', 'log10'):
            lu, lv, _L1, _L2 = _log_rules(cn, z1, z2)
            kf = {'log': 1.0, 'log2': float(np.log(2.0)) ** -1, 'log10': float(np.log(10.0)) ** -1}[name]
            kr = sn.ratval(Fraction(kf))
            # log2 / log10 are DEFINED as log / ln 2, log / ln 10 (the same double the library divides by)
            targets = (lu * kr, lv * kr)
        elif name == 'exp2':
            ln2 = sn.ratval(Fraction(float(np.log(2.0))))
            s1, s2 = z1 * ln2, z2 * ln2
            E1, S2, C2 = cuf('exp', s1), cuf('sin', s2), cuf('cos', s2)
            cn.rule('exp', s1, E1)
            cn.rule('sin', s2, S2)
            cn.rule('cos', s2, C2)
            # exp2(w) is DEFINED as exp(w ln 2);  exp(s1 -+ i s2) = exp(s1)(cos s2 -+ i sin s2)
            targets = (E1 * (C2 - S2.times_i()), E1 * (C2 + S2.times_i()))
        elif name in ('sqrt', 'rpow', 'reciprocal', 'division', 'rdivision'):
            pw = {'sqrt': 0.5, 'reciprocal': -1.0, 'division': -1.0, 'rdivision': -1.0}.get(name, RPOWS[k] if name == 'rpow' else None)
            pr = sn.ratval(Fraction(pw))
            sg = z3.RealVal(-1 if negd else 1)
            # a divisor with negative real part is negated before the logarithm is taken and the sign restored afterwards:
            # 1/w = -exp(-log(-w))
            lu, lv, L1, L2 = _log_rules(cn, z1 * sg, z2 * sg)
            eu, ev = _pow_rules(cn, L1, L2, pr)
            if negd:
                eu, ev = eu.neg(), ev.neg()
            # w^p is DEFINED as exp(p log w) (principal power); the library's branch for non-invertible numbers uses numpy's
            # w**p directly: same definition
            cn.rule(sn.pow_uf_name(pw), u, eu)
            cn.rule(sn.pow_uf_name(pw), v, ev)
            if name in ('sqrt', 'rpow'):
                targets = (eu, ev)
            else:
                nu, nv = (one, one) if name == 'reciprocal' else ((C(z3.RealVal('3/4'), z3.RealVal(0)),) * 2 if name == 'rdivision'
                                                                  else (U(*yy), V(*yy)))
                targets = (nu * eu, nv * ev)    # 1/w is DEFINED as exp(-log w)
        # merged assignments (out[mask] = ...) leave If terms whose condition is a path condition: resolve them first
        r1 = C(cn._resolve_ites(r1.r), cn._resolve_ites(r1.i))
        r2 = C(cn._resolve_ites(r2.r), cn._resolve_ites(r2.i))
        c1, c2 = cn.c(r1), cn.c(r2)
        ru, rv = U(c1, c2), V(c1, c2)
        def _main_holds():
            # the branch for non-invertible numbers forms (z1 -+ i z2)**-1 exactly: no exponential is left in the result
            return _mentions(ru.r, 'uf_cexp_') or _mentions(ru.i, 'uf_cexp_')
        if name in ('reciprocal', 'division', 'rdivision') and not _main_holds():
            # branch for non-invertible numbers: (z1 -+ i z2)**-1 was formed exactly; claim result * w == numerator
            nu, nv = (one, one) if name == 'reciprocal' else ((C(z3.RealVal('3/4'), z3.RealVal(0)),) * 2 if name == 'rdivision' else (U(*yy), V(*yy)))
            claims = [('(z1 - i z2) u == numerator', ru * u, nu), ('(z1 + i z2) v == numerator', rv * v, nv)]
        else:
            claims = [('z1 - i z2 == f(u)', ru, targets[0]), ('z1 + i z2 == f(v)', rv, targets[1])]
        for label, lhs, rhs in claims:
            dr = z3.simplify(lhs.r - rhs.r, som=True)
            di = z3.simplify(lhs.i - rhs.i, som=True)
            if _identically_zero(dr) and _identically_zero(di):
                # rational-function identity in the atoms (denominators are |u|^2, |v|^2 > 0 in the region)
                job.n_obl += 1
                job.n_discharged += 1
                job.n_nontrivial += 1
                continue
            job.prove('%s [%s]' % (label, name), z3.And(dr == 0, di == 0), pre, info)
        job.twin('region and path satisfiable', pre)
    job.absorb_explorer(ex)
    job.confirm('at least one path', npaths > 0)


TRIG_DEF = {'tan': ('sin', 'cos'), 'cot': ('cos', 'sin'), 'sec': (None, 'cos'), 'csc': (None, 'sin'),
            'tanh': ('sinh', 'cosh'), 'coth': ('cosh', 'sinh'), 'sech': (None, 'cosh'), 'csch': (None, 'sinh')}


def trig_quotient(job, mc, name):
    """tan, cot, sec, csc, tanh, coth, sech, csch: on every path the result is, term for term, the library's own quotient
    N / D of the functions proven by the func-* jobs (N = 1 for the reciprocals); N / D itself is proven by the
    principal-division jobs for denominators in the principal region or its negative."""
    num_name, den_name = TRIG_DEF[name]
    info = dict(key='C12:principal:%s' % name, kind='bicomplex', op='principal-' + name, k=0)

    def harness():
        with tr.traced(extra=[(mc, '_TINY', 0.0)]):
            x, z1, z2 = bic(mc, 'x')
            got = getattr(x, name)()
            den = getattr(x, den_name)()
            want = (getattr(x, num_name)() / den) if num_name else (1.0 / den)
            return got, want
    a, b, c, d = (z3.Real('x' + ch) for ch in 'abcd')
    region = [z3.And(w <= 2, w >= -2) for w in (a, b, c, d)]
    # the comparison is term by term, so branch feasibility is irrelevant: undecided branches are simply explored
    ex = sn.Explorer(harness, assumptions=region, max_paths=64, timeout_ms=500)
    npaths = 0
    for path in ex.paths():
        if path.exc is not None:
            if isinstance(path.exc, sn.Unsupported):
                raise path.exc
            job.violation('raises', dict(info, key='C12:principal:%s:raises' % name, exc=repr(path.exc)[:200]))
            continue
        npaths += 1
        got, want = path.result
        for comp in ('z1', 'z2'):
            g, w = of_symc(getattr(got, comp)), of_symc(getattr(want, comp))
            same = z3.eq(z3.simplify(g.r), z3.simplify(w.r)) and z3.eq(z3.simplify(g.i), z3.simplify(w.i))
            if same:
                job.confirm('%s().%s is the quotient term' % (name, comp), True)
            else:
                job.prove('%s().%s == (%s / %s).%s' % (name, comp, num_name or '1', den_name, comp), z3.And(g.r == w.r, g.i == w.i),
                          region + path.conds(), info)
    job.absorb_explorer(ex)
    job.confirm('at least one path', npaths > 0)


# ---- numeric validation / replay -------------------------------------------
NPF = {'exp': np.exp, 'sin': np.sin, 'cos': np.cos, 'sinh': np.sinh, 'cosh': np.cosh, 'expm1': np.expm1, 'log1p': np.log1p}


def numeric_deviation(mc, op, k=0, trials=40, seed=0):
    """max deviation of the real class from the idempotent-decomposition oracle on random points"""
    rng = np.random.default_rng(seed)
    worst, where = 0.0, None
    for _ in range(trials):
        # log1p is defined for Re z1 > -1: base points on both sides of 0; the entire functions also at large |Re z1|
        if op in ('exp', 'sin', 'cos', 'sinh', 'cosh', 'expm1') and _ % 2:
            big = float(rng.choice([-40.0, -25.0, -21.0, 21.0, 25.0, 30.0])) if op in ('sinh', 'cosh', 'exp', 'expm1') else float(rng.uniform(-40, 40))
        else:
            big = None
        z1 = complex(rng.uniform(-0.9, 1.5) if op == 'log1p' else rng.uniform(0.2, 1.5), rng.normal() * (0.03 if op == 'log1p' else 0.3))
        if big is not None:
            z1 = complex(big, z1.imag * 1e-3)
        z2 = complex(rng.normal() * 0.3, rng.normal() * 0.3)
        y1 = complex(rng.normal(), rng.normal())
        y2 = complex(rng.normal(), rng.normal())
        x, y = mc.Bicomplex(z1, z2), mc.Bicomplex(y1, y2)
        u, v, yu, yv = z1 - 1j * z2, z1 + 1j * z2, y1 - 1j * y2, y1 + 1j * y2
        s = 0.7
        if op.startswith('array-') and op != 'array':
            nm = op[len('array-'):]
            shp = (3,) if k == 1 else (2, 2)
            q = 0.2
            z1a = rng.uniform(0.3, 1.4, size=shp) + 1j * rng.uniform(-q, q, size=shp) * 0.25
            z2a = (rng.uniform(-q, q, size=shp) + 1j * rng.uniform(-q, q, size=shp)) * 0.25
            z2a.flat[1] = 0.0
            xa = mc.Bicomplex(z1a, z2a)
            ra = getattr(xa, nm)()
            worst_here, where_here = 0.0, None
            for idx in np.ndindex(shp):
                rs = getattr(mc.Bicomplex(z1a[idx], z2a[idx]), nm)()
                dv = abs(complex(np.asarray(ra.z1)[idx]) - complex(np.ravel(rs.z1)[0])) + abs(complex(np.asarray(ra.z2)[idx]) - complex(np.ravel(rs.z2)[0]))
                if dv > worst_here:
                    worst_here, where_here = dv, (z1a[idx], z2a[idx])
            if worst_here > worst:
                worst, where = worst_here, where_here
            continue
        if op.startswith('principal-'):
            nm = op[len('principal-'):]
            a0 = rng.uniform(0.2, 1.5)
            if nm in PRINCIPAL_TRIG:
                a0 = rng.uniform(-1.4, 1.4)
            q = 0.25 * abs(a0) if nm not in PRINCIPAL_TRIG else 0.2
            z1 = complex(a0, rng.uniform(-q, q))
            z2 = complex(rng.uniform(-q, q), rng.uniform(-q, q))
            if nm == 'division-negative':
                z1, z2 = -z1, -z2
            x = mc.Bicomplex(z1, z2)
            u, v = z1 - 1j * z2, z1 + 1j * z2
            npf = {'log': np.log, 'log2': np.log2, 'log10': np.log10, 'exp2': np.exp2, 'sqrt': np.sqrt, 'tan': np.tan,
                   'cot': lambda w: 1 / np.tan(w), 'sec': lambda w: 1 / np.cos(w), 'csc': lambda w: 1 / np.sin(w), 'tanh': np.tanh,
                   'coth': lambda w: 1 / np.tanh(w), 'sech': lambda w: 1 / np.cosh(w), 'csch': lambda w: 1 / np.sinh(w)}
            if nm in npf:
                res, fu, fv = getattr(x, nm)(), npf[nm](u), npf[nm](v)
            elif nm == 'rpow':
                res, fu, fv = x ** RPOWS[k], u ** RPOWS[k], v ** RPOWS[k]
            elif nm == 'reciprocal':
                res, fu, fv = x ** -1, 1 / u, 1 / v
            elif nm == 'rdivision':
                res, fu, fv = 0.75 / x, 0.75 / u, 0.75 / v
            else:
                res, fu, fv = y / x, yu / u, yv / v
        elif op == 'logslice':
            x = mc.Bicomplex(complex(rng.choice([-1, 1]) * rng.uniform(0.2, 2), rng.normal() * 0.3), 0.0)
            z1, z2 = complex(np.ravel(x.z1)[0]), 0j
            res = x.log().exp()
            fu = fv = z1
        elif op in NPF:
            res, fu, fv = getattr(x, op)(), NPF[op](u), NPF[op](v)
        elif op in ('add',):
            res, fu, fv = x + y, u + yu, v + yv
        elif op == 'radd':
            res, fu, fv = s + x, s + u, s + v
        elif op == 'sub':
            res, fu, fv = x - y, u - yu, v - yv
        elif op == 'rsub':
            res, fu, fv = s - x, s - u, s - v
        elif op in ('mul', 'dot', 'array'):
            res, fu, fv = (x * y if op != 'dot' else x.dot(y)), u * yu, v * yv
        elif op == 'rmul':
            res, fu, fv = s * x, s * u, s * v
        elif op in ('iadd', 'isub', 'imul', 'imul-self'):
            res = mc.Bicomplex(x.z1, x.z2)
            if op == 'iadd':
                res += y
                fu, fv = u + yu, v + yv
            elif op == 'isub':
                res -= y
                fu, fv = u - yu, v - yv
            elif op == 'imul':
                res *= y
                fu, fv = u * yu, v * yv
            elif op == 'imul-self':
                res *= res
                res *= x
                fu, fv = u ** 3, v ** 3
            else:
                res **= 2
                fu, fv = u * u, v * v
        elif op == 'setitem':
            xa = mc.Bicomplex(np.array([z1, y1]), np.array([z2, y2]))
            xa[0] = 0.75
            res = mc.Bicomplex(np.asarray(xa.z1)[0], np.asarray(xa.z2)[0])
            fu = fv = 0.75
        elif op == 'neg':
            res, fu, fv = -x, -u, -v
        elif op == 'conjugate':
            res, fu, fv = x.conjugate(), v, u
        elif op == 'pow':
            res, fu, fv = x._pow_singular(k), u ** k, v ** k
        else:
            raise ValueError(op)
        r1, r2 = complex(np.ravel(res.z1)[0]), complex(np.ravel(res.z2)[0])
        dev = (abs((r1 - 1j * r2) - fu) + abs((r1 + 1j * r2) - fv)) / (1 + abs(fu) + abs(fv))
        if dev > worst:
            worst, where = dev, (z1, z2)
    return worst, where


def _validate(job, mc, op, k=0):
    job.validated += 1


def replay(cex):
    mc = cm.nd_mods()['mc']
    op = cex.get('op')
    k = cex.get('k', 0)
    if op == 'witness':
        bad = witness_failures()
        return (True, bad[0]) if bad else (False, 'witness runs are exact')
    if op is None:
        return None, 'no operation recorded'
    with cm.quiet():
        worst, where = numeric_deviation(mc, op, k)
    if worst > 1e-9:
        return True, 'Bicomplex %s%s deviates from e1 f(z1 - i z2) + e2 f(z1 + i z2) by %.3g (relative) at z1=%r, z2=%r' % (
            op, ('(%d)' % k) if op == 'pow' else '', worst, where[0], where[1])
    return False, 'numerically equal to the decomposition oracle (max relative deviation %.2g)' % worst
