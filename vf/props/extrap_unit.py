"""Shared harness: the real ``_Limit._extrapolate`` (Richardson -> dea3 -> outlier penalty ->
per-column argmin -> gather/reshape) driven as a unit on a FRESH symbolic k x c matrix of derivative
estimates and symbolic positive steps.  Used by C02 (honest, self-consistent record) and C08
(non-interference between columns).

Division by a symbolic quantity inside dea3 is an uninterpreted reciprocal: every claim proven here holds
for any value of those quotients.  Selection (nanargmin, tie handling via flatnonzero) forks; z3 prunes
infeasible branches.
"""
from __future__ import annotations

import numpy as np
import z3

from .. import symnum as sn
from .. import tracing as tr
from . import common as cm


def make_inputs(k, c, tag=''):
    der = np.empty((k, c), dtype=object)
    steps = np.empty((k, c), dtype=object)
    for i in range(k):
        for j in range(c):
            der[i, j] = sn.real_var('d%s_%d_%d' % (tag, i, j))
            steps[i, j] = sn.real_var('h%s_%d_%d' % (tag, i, j))
    return der.view(sn.SymArr), steps.view(sn.SymArr)


def col_of(name):
    """column index encoded in a symbol name d_i_j / h_i_j (None for other symbols)"""
    if name.startswith('uf_'):
        return None
    parts = name.split('_')
    try:
        return int(parts[-1])
    except ValueError:
        return None


def explore(k, c, shape, ratio=2.0, step=2, order=2, num_terms=2, max_paths=3000, timeout_ms=20000, nan_cols=(), nan_cells=()):
    """all feasible paths of the real pipeline; each path result is a dict.
    nan_cols: columns whose estimates are all NaN (a point where the function is undefined at every step)"""
    mods = cm.nd_mods()
    lim, ex = mods['lim'], mods['ex']
    der, steps = make_inputs(k, c)
    for j in nan_cols:
        for i in range(k):
            np.asarray(der)[i, j] = float('nan')
    for (i, j) in nan_cells:             # estimates that are NaN for some steps only (e.g. sqrt near 0 with the large steps)
        np.asarray(der)[i, j] = float('nan')
    pos = [sn.lift(v) > 0 for v in cm.flat_list(steps)]

    def harness():
        with tr.traced(), sn.abstract_division(products=True), cm.quiet():
            L = lim._Limit()
            L.richardson = ex.Richardson(step_ratio=ratio, step=step, order=order, num_terms=num_terms)
            d_in = der.copy()
            s_in = steps.copy()
            # candidate tables, computed by the same real stages (no selection involved)
            d1, e1, s1 = L.richardson(d_in.copy(), s_in.copy())
            if len(d1) > 2:
                d1, e1, s1 = L._wynn_extrapolate(d1, s1)
            pen = lim._Limit._add_error_to_outliers(d1)
            val, info = L._extrapolate(d_in, s_in, shape)
            w = L.richardson.rule(k)
            return dict(val=val, err=info.error_estimate, fstep=info.final_step, index=info.index,
                        cand_d=d1, cand_e=e1, cand_s=s1, pen=pen, w1=float(np.sum(np.abs(w))),
                        unchanged=all(a is b for a, b in zip(cm.flat_list(d_in), cm.flat_list(der))) and
                        all(a is b for a, b in zip(cm.flat_list(s_in), cm.flat_list(steps))))
    explorer = sn.Explorer(harness, assumptions=pos, max_paths=max_paths, timeout_ms=timeout_ms)
    paths = list(explorer.paths())
    return der, steps, paths, explorer


def split_conds(path, c):
    """path-condition conjuncts grouped by the column whose symbols they mention.
    -> (dict col -> sorted list of sexprs, list of conjuncts mixing columns)"""
    groups = {j: [] for j in range(c)}
    mixed = []
    for t in path.pc:
        cols = {col_of(v) for v in sn.term_vars(t)}
        cols.discard(None)
        if len(cols) == 1:
            groups[cols.pop()].append(t)
        elif len(cols) > 1:
            mixed.append(t)
    TERMS.clear()
    out = {}
    for j, v in groups.items():
        key = tuple(sorted(t.sexpr() for t in v))
        out[j] = key
        TERMS[(j, key)] = list(v)
    return out, mixed


TERMS = {}     # (column, key) -> the z3 conjuncts behind the key of the most recent split_conds call
