"""C10 -- step generators produce the documented geometric sequences, and enough steps.

  B  Basic{Max,Min}StepGenerator.__call__ traced with SYMBOLIC base_step, step_ratio > 1 and integer
     offsets: step i == base*ratio**(-+i + offset) in the documented order, strictly decreasing magnitude,
     nothing yielded for a zero base step                                             (z3, NRA)
  G  MinStepGenerator / MaxStepGenerator.__call__ with SYMBOLIC x and base_step: steps ==
     base_step * step_nom(x) * ratio**(i+offset), step_nom(x) = max(log(1.718..+|x|), 1) (log uninterpreted) or
     the user value; default ratio, default base step EPS**(1/scale); order of generation       (z3, UFLRA/NRA)
  N  counting logic for ALL n, order (CrossHair, unbounded): min_num_steps, num_steps (check_num_steps,
     num_extrap), default ratio, and the coupling "default count >= rule length"
  E  use_exact_steps: float64 lemma for make_exact(h) = (h+1)-1:  fl(r+1) == fl(h+1), |r-h| <= 2^-53 for |h|<=1  (z3 FP)
  C  CStepGenerator: radial => real ratio, spiral => ratio*exp(i*dtheta); steps base*ratio**(i+offset) for a
     symbolic base; default num_steps formula; invalid path raises ValueError
  S  default_scale against the closed-form table kept in spec/step_defaults.json (configuration table, n, order <= 10)
"""
from __future__ import annotations

import json
import math
import os
from fractions import Fraction

import numpy as np
import z3

from .. import symnum as sn
from .. import tracing as tr
from .. import xhair
from . import common as cm

ID = 'C10'

META = {
    'title': 'step generators yield the documented sequences and enough steps',
    'level': 'other',
    'explanation': (
        'Solver-based checking of the real step generators: the generator classes are executed with symbolic base step, '
        'symbolic step ratio and symbolic x (log of the nominal-step formula uninterpreted); z3 proves each yielded step equals '
        'the documented closed form, the order of generation and strict decrease; CrossHair confirms the counting logic and the '
        'coupling with the rule length for unbounded n, order; make_exact is proven in z3 floating point (float64).'),
    'functions_encoded': ['numdifftools.step_generators.BasicMaxStepGenerator.__call__/_range', 'BasicMinStepGenerator._range',
                          'MinStepGenerator.__init__/scale/base_step/min_num_steps/_num_step_divisor/num_steps/step_ratio/step_nom/'
                          'step_generator_function/__call__', 'MaxStepGenerator.__init__', 'get_nominal_step', 'get_base_step',
                          'default_scale', 'make_exact', 'numdifftools.limits.CStepGenerator.__init__/step_ratio/dtheta/num_steps/_check_path'],
    'bounds': 'offsets -3..3, num_steps <= 12 (symbolic base/ratio); x scalar and shape (2,); n, order unbounded for the counting '
              'logic; default_scale table n, order <= 10; CStepGenerator ratios {2,4,16}, dtheta {pi/8, 0.5, -pi/8, -2}',
    'outside_claim': ['non-integer offset, symbolic scale (real powers)', 'log/exp of symbolic values (uninterpreted)'],
    'stubs': ['module global np -> symbolic numpy proxy', 'np.log of a symbolic value -> uninterpreted function'],
    'assumptions': ['exact real arithmetic except the make_exact float64 lemma', 'step_ratio > 1'],
    'timeout_ms': {'quick': 120000, 'thorough': 300000},
}

SPEC_FILE = os.path.join(os.path.dirname(os.path.dirname(os.path.dirname(os.path.abspath(__file__)))), 'spec', 'step_defaults.json')


def jobs(tier, seed):
    out = [('crosshair-steps', dict(kind='xh', a=0, b=0))]
    for gen in ('max', 'min'):
        for off in range(-3, 4):
            out.append(('basic-%s-off%d' % (gen, off), dict(kind='basic', a=gen, b=off)))
    for gen in ('min', 'max'):
        for mode in ('default-nom', 'user-nom', 'default-base', 'default-base-reused', 'array-x'):
            out.append(('gen-%s-%s' % (gen, mode), dict(kind='gen', a=gen, b=mode)))
    out.append(('make-exact-fp64', dict(kind='fp', a=0, b=0)))
    out.append(('cstep', dict(kind='cstep', a=0, b=0)))
    out.append(('default-scale-table', dict(kind='scale', a=0, b=0)))
    out.append(('integer-typed-witness', dict(kind='intwitness', a=0, b=0)))
    return out


def run_job(job, kind, a, b):
    mods = cm.nd_mods()
    if kind == 'xh':
        xhair.absorb(job, 'steps_spec.py', 'C10:xh')
    elif kind == 'basic':
        basic(job, mods['sg'], a, b)
    elif kind == 'gen':
        gen(job, mods['sg'], a, b)
    elif kind == 'fp':
        fp(job)
    elif kind == 'cstep':
        cstep(job, mods['lim'])
    elif kind == 'intwitness':
        bad = int_witness_failures(mods['sg'], mods['lim'])
        if not job.confirm('integer-typed x / options give the same steps as the same values as floats (concrete runs)', not bad):
            job.violation('int', dict(key='C10:integer-typed-arguments', kind='intwitness', detail=bad[0]))
    else:
        scale_table(job, mods['sg'])


def int_witness_failures(sg, lim):
    """CONCRETE witness runs (not solver evidence): integer-typed x and integer-typed options must give the steps the same
    values give as floats (the symbolic runs carry no numpy dtype)"""
    bad = []
    gens = [('MinStepGenerator', sg.MinStepGenerator), ('MaxStepGenerator', sg.MaxStepGenerator), ('CStepGenerator', lim.CStepGenerator)]
    optsets = [dict(), dict(step_nom=2.5), dict(step_nom=0.5, num_steps=4), dict(base_step=1, step_ratio=2, num_steps=3),
               dict(base_step=0.25, step_ratio=4, num_steps=5, offset=1), dict(num_extrap=2)]
    xs = [(3, 3.0), (-5, -5.0), (np.int32(7), 7.0), (np.array([1, 2, 7]), np.array([1.0, 2.0, 7.0])), (0, 0.0)]
    for gname, cls in gens:
        for kw in optsets:
            fkw = {k: (float(v) if isinstance(v, int) and k not in ('num_steps', 'offset', 'num_extrap') else v) for k, v in kw.items()}
            for xi, xf in xs:
                try:
                    a = [np.asarray(v, dtype=complex) for v in cls(**kw)(xi, 'central', 2, 4)]
                    b = [np.asarray(v, dtype=complex) for v in cls(**fkw)(xf, 'central', 2, 4)]
                except Exception as e:  # noqa
                    bad.append('%s(%s) at x=%r raises %s: %s' % (gname, kw, xi, type(e).__name__, e))
                    continue
                if len(a) != len(b) or any(u.shape != w.shape or not np.allclose(u, w, rtol=1e-13, atol=0) for u, w in zip(a, b)):
                    bad.append('%s(%s) at integer-typed x=%r yields %r..., at x=%r %r...' % (
                        gname, kw, xi, [np.ravel(v)[0] for v in a[:3]], xf, [np.ravel(v)[0] for v in b[:3]]))
    return bad


def _pow(t, e):
    """t**e for integer e as (numerator power, denominator power)"""
    return (sn._pow_term(t, e), None) if e >= 0 else (None, sn._pow_term(t, -e))


def _eq_power(step_t, base_t, rho_t, e):
    """claim: step == base * rho**e  (cross-multiplied for negative e)"""
    if e >= 0:
        return step_t == base_t * sn._pow_term(rho_t, e)
    return step_t * sn._pow_term(rho_t, -e) == base_t


def basic(job, sg, which, off):
    base, rho = sn.real_var('base'), sn.real_var('rho')
    cls = sg.BasicMaxStepGenerator if which == 'max' else sg.BasicMinStepGenerator
    for num in (1, 4, 12):
        def harness():
            with tr.traced():
                return list(cls(base_step=base, step_ratio=rho, num_steps=num, offset=off)())
        ex = sn.Explorer(harness, assumptions=[rho.t > 1], max_paths=64)
        paths = list(ex.paths())
        job.absorb_explorer(ex)
        nonzero_seen = False
        for p in paths:
            if p.exc is not None:
                job.violation('raises', dict(key='C10:basic:raises', kind='basic', exc=repr(p.exc)))
                continue
            steps = p.result
            conds = p.conds()
            s = z3.Solver()
            s.add(*conds)
            s.add(base.t == 0)
            zero_possible = str(s.check()) == 'sat'
            if zero_possible and len(steps) == 0:
                job.prove('zero base step yields nothing (path implies base==0)', base.t == 0, conds,
                          dict(key='C10:basic:steps-dropped-for-nonzero-base', kind='basic'))
                continue
            nonzero_seen = True
            if not job.confirm('count num=%d' % num, len(steps) == num):
                job.violation('count', dict(key='C10:basic:%s:wrong-count' % which, kind='basic', num=num, got=len(steps)))
                continue
            job.prove('no step on a zero base', base.t != 0, conds, dict(key='C10:basic:zero-step-yielded', kind='basic'))
            for idx, st in enumerate(steps):
                i = idx if which == 'max' else num - 1 - idx
                e = (-i if which == 'max' else i) + off
                job.prove('%s step[%d] == base*ratio^%d' % (which, idx, e), _eq_power(sn.lift(st), base.t, rho.t, e), conds,
                          dict(key='C10:basic:%s:closed-form' % which, kind='basic', num=num, idx=idx, off=off))
            for idx in range(len(steps) - 1):
                a0, a1 = cm.zabs(sn.lift(steps[idx])), cm.zabs(sn.lift(steps[idx + 1]))
                # consecutive steps differ by exactly one factor of the ratio, in decreasing order
                job.prove('%s step[%d] == ratio*step[%d]' % (which, idx, idx + 1),
                          sn.lift(steps[idx]) == rho.t * sn.lift(steps[idx + 1]), conds,
                          dict(key='C10:basic:%s:not-decreasing' % which, kind='basic', num=num, idx=idx))
        job.confirm('nonzero path explored', nonzero_seen)
    # array base step with a zero element: no step with a zero component is ever yielded
    b0 = sn.real_var('b0')

    def harness2():
        with tr.traced():
            return list(cls(base_step=sn.SymArr([b0, 0.0]), step_ratio=2.0, num_steps=3, offset=off)())
    for p in sn.Explorer(harness2, max_paths=16).paths():
        job.paths += 1
        if not job.confirm('array base with a zero element yields nothing', p.exc is None and len(p.result) == 0):
            job.violation('zero-component', dict(key='C10:basic:zero-component-yielded', kind='basic'))


def gen(job, sg, which, mode):
    cls = sg.MinStepGenerator if which == 'min' else sg.MaxStepGenerator
    x = sn.real_var('x')
    base = sn.real_var('base')
    log = sn.uninterpreted('log')
    ratio, num, off = 3.0, 5, 1
    if mode == 'array-x':
        xs = sn.SymArr([sn.real_var('x0'), sn.real_var('x1')])
    else:
        xs = x
    kw = dict(base_step=base, step_ratio=ratio, num_steps=num, offset=off, use_exact_steps=False)
    if mode == 'user-nom':
        kw['step_nom'] = 0.75
    reused = mode == 'default-base-reused'
    if reused:
        mode = 'default-base'
    if mode == 'default-base':
        kw = {}          # everything at its documented default
    if mode == 'array-x':
        kw['step_ratio'] = ratio = 4.0      # binary ratio: float powers are exact, equality is exact

    def harness():
        with tr.traced():
            g = cls(**kw)
            if reused:
                # the documented defaults are per call: an earlier first-derivative use of the same generator must not matter
                list(g(0.25, 'forward', 1, 2))
                _ = (g.step_ratio, g.num_steps, g.base_step)
            return list(g(xs, 'central', 2, 4)), g.step_ratio, g.num_steps
    ex = sn.Explorer(harness, assumptions=[base.t > 0], max_paths=64)
    paths = [p for p in ex.paths()]
    job.absorb_explorer(ex)
    for p in paths:
        if p.exc is not None:
            job.violation('raises', dict(key='C10:gen:raises', kind='gen', exc=repr(p.exc)[:200]))
            continue
        steps, r_used, n_used = p.result
        conds = p.conds()
        offv = off
        if mode == 'default-base':
            want_ratio = 1.6           # documented default for n > 1
            if which == 'min':
                want_base = sn.ratval(float(np.finfo(float).eps) ** (1. / spec_scale('central', 2, 4)))
                nn = (2 + 4 - 1) // 2                  # min_num_steps + num_extrap(0)
            else:
                want_base = sn.ratval(2.0)
                nn = 15
            job.confirm('default ratio 1.6 for n=2', float(r_used) == want_ratio)
            job.confirm('default count', n_used == nn)
            rr, nsteps, bt, offv = want_ratio, nn, want_base, 0
        else:
            rr, nsteps, bt = ratio, num, base.t
        if not job.confirm('count', len(steps) == nsteps):
            job.violation('count', dict(key='C10:gen:%s:wrong-count' % which, kind='gen', mode=mode, got=len(steps), want=nsteps))
            continue
        xl = cm.flat_list(xs)
        for idx, st in enumerate(steps):
            i = nsteps - 1 - idx if which == 'min' else idx
            e = (i if which == 'min' else -i) + offv
            comp = cm.flat_list(st)
            if not job.confirm('step shape', len(comp) == len(xl)):
                job.violation('shape', dict(key='C10:gen:step-shape', kind='gen', mode=mode))
                break
            for j, v in enumerate(comp):
                if mode == 'user-nom':
                    nom = sn.ratval(0.75)
                else:
                    lt = log(sn.ratval(1.718281828459045) + cm.zabs(sn.lift(xl[j])))
                    nom = z3.If(lt >= 1, lt, z3.RealVal(1))
                want = bt * nom * sn.ratval(Fraction(rr) ** e)
                if float(rr) in (2.0, 4.0):
                    claim = sn.lift(v) == want
                else:
                    # ratio**k is a rounded float power: closed form up to 8 eps relative
                    tol = sn.ratval(Fraction(8, 2 ** 52)) * want
                    claim = z3.And(sn.lift(v) - want <= tol, want - sn.lift(v) <= tol)
                job.prove('%s/%s step[%d][%d] closed form' % (which, mode, idx, j), claim, conds + [nom >= 1],
                          dict(key='C10:gen:%s:closed-form' % which, kind='gen', mode=mode, idx=idx))
                job.prove('%s/%s step[%d][%d] positive' % (which, mode, idx, j), sn.lift(v) > 0, conds,
                          dict(key='C10:gen:%s:nonpositive-step' % which, kind='gen', mode=mode, idx=idx))
    job.twin('assumption satisfiable', [base.t > 0])


def fp(job):
    F = z3.Float64()
    RM = z3.RNE()
    h = z3.FP('h', F)
    one = z3.FPVal(1.0, F)
    fin = z3.And(z3.Not(z3.fpIsNaN(h)), z3.Not(z3.fpIsInf(h)))
    # run the REAL make_exact on the FP symbol
    sg = cm.nd_mods()['sg']
    fdm = cm.nd_mods()['fd']
    for mod, name in ((sg, 'step_generators'), (fdm, 'finite_difference')):
        r = mod.make_exact(sn.SymFP(h))
        rt = r.t
        pre = [fin, z3.fpLEQ(z3.fpAbs(h), one)]
        job.prove('%s.make_exact: fl(r+1) == fl(h+1)' % name, z3.fpEQ(z3.fpAdd(RM, rt, one), z3.fpAdd(RM, h, one)), pre,
                  dict(key='C10:make_exact', kind='fp'), presimplify=False)
        job.prove('%s.make_exact: |r-h| <= 2^-53' % name,
                  z3.fpLEQ(z3.fpAbs(z3.fpSub(RM, rt, h)), z3.FPVal(2.0 ** -53, F)), pre,
                  dict(key='C10:make_exact', kind='fp'), presimplify=False)
    job.twin('fp reach', [fin, z3.fpGT(h, z3.FPVal(0.3, F)), z3.fpLT(h, z3.FPVal(0.4, F))])


def cstep(job, lim):
    base = sn.real_var('base')
    for path, dth in (('radial', math.pi / 8), ('spiral', math.pi / 8), ('spiral', 0.5), ('spiral', -math.pi / 8), ('spiral', -2.0),
                      ('radial', -0.5)):
        for ratio in (2.0, 4.0, 16.0):
            def harness():
                with tr.traced():
                    g = lim.CStepGenerator(base_step=base, step_ratio=ratio, step_nom=1.0, path=path, dtheta=dth,
                                           use_exact_steps=False, offset=1)
                    return list(g(0.0)), g.step_ratio, g.num_steps, g.dtheta
            ex = sn.Explorer(harness, assumptions=[base.t > 0], max_paths=32)
            for p in ex.paths():
                job.paths += 1
                if p.exc is not None:
                    job.violation('raises', dict(key='C10:cstep:raises', kind='cstep', exc=repr(p.exc)[:200]))
                    continue
                steps, r_used, nsteps, dth_used = p.result
                want_n = 2 * int(round(16.0 / math.log(abs(r_used)))) + 1
                # documented default count: 2*round(16/log|ratio|)+1 -- the modulus of the ratio, whatever its argument
                want_doc = 2 * int(round(16.0 / math.log(ratio))) + 1
                if not job.confirm('default num_steps formula', nsteps == want_n == want_doc and len(steps) == nsteps):
                    job.violation('count', dict(key='C10:cstep:default-count', kind='cstep', path=path, ratio=ratio, got=int(nsteps), want=want_doc))
                    continue
                if path == 'radial':
                    ok = dth_used == 0 and not isinstance(r_used, complex) and r_used == ratio
                else:
                    ok = dth_used == dth and abs(r_used - ratio * complex(math.cos(dth), math.sin(dth))) < 1e-15 * ratio
                if not job.confirm('%s ratio' % path, ok):
                    job.violation('ratio', dict(key='C10:cstep:%s-ratio' % path, kind='cstep', got=repr(r_used)))
                    continue
                rz = (Fraction(float(np.real(r_used))), Fraction(float(np.imag(r_used))))
                for idx, st in enumerate(steps):
                    i = nsteps - 1 - idx
                    e = i + 1
                    # exact power of the (Gaussian rational) ratio actually used, times the symbolic base
                    pr, pi = Fraction(1), Fraction(0)
                    for _ in range(e):
                        pr, pi = pr * rz[0] - pi * rz[1], pr * rz[1] + pi * rz[0]
                    stc = sn.as_symc(st if not isinstance(st, np.ndarray) else st[()])
                    tol = sn.ratval(Fraction(1, 10 ** 12) * (abs(pr) + abs(pi))) * base.t
                    dr = sn.lift(stc.re) - base.t * sn.ratval(pr)
                    di = sn.lift(stc.im) - base.t * sn.ratval(pi)
                    job.prove('cstep %s r=%g step[%d] == base*ratio^%d' % (path, ratio, idx, e),
                              z3.And(dr <= tol, -dr <= tol, di <= tol, -di <= tol), p.conds(),
                              dict(key='C10:cstep:closed-form', kind='cstep', path=path, ratio=ratio, idx=idx))
    # invalid path
    try:
        lim.CStepGenerator(path='zigzag')
        job.violation('path-guard', dict(key='C10:cstep:invalid-path-accepted', kind='cstep'))
    except ValueError:
        job.confirm('invalid path raises ValueError', True)


def spec_scale(method, n, order):
    """closed-form table of the documented default scale (independent restatement)"""
    high = n > 1 or order >= 4
    o2 = max(order // 2 - 1, 0)
    q, r = divmod(n, 4)
    if method == 'multicomplex':
        return 1.06
    if method == 'complex':
        c = 0.0
        if high:
            c = {0: q * (10 + (1.5 if n > 10 else 0)), 1: 3.65 + q * (5 + 1.5 ** q), 2: 3.65 + q * (5 + 1.7 ** q),
                 3: 7.30 + q * (5 + 2.1 ** q)}[r]
        return 1.06 + c
    return 2.5 + (n - 1) * 1.3 + o2 * {'central': 3, 'forward': 2, 'backward': 2}[method]


def scale_table(job, sg):
    with open(SPEC_FILE) as f:
        table = json.load(f)
    for key, want in table.items():
        method, n, order = key.split(':')
        n, order = int(n), int(order)
        got = sg.default_scale(method, n, order)
        ok = abs(got - want) <= 1e-12 * abs(want) and abs(spec_scale(method, n, order) - want) <= 1e-12 * abs(want)
        if not job.confirm('default_scale(%s)' % key, ok):
            job.violation('scale', dict(key='C10:default-scale-changed', kind='scale', entry=key, got=got, want=want))
    # base step = EPS**(1/scale)
    job.confirm('get_base_step', sg.get_base_step(2.5) == np.finfo(float).eps ** (1 / 2.5))


def replay(cex):
    kind = cex.get('kind')
    mods = cm.nd_mods()
    sg, lim = mods['sg'], mods['lim']
    asg = cm.assignment_from_model(cex.get('model', {}))
    if kind == 'crosshair':
        return xhair.replay_crosshair(cex)
    if kind == 'basic':
        cfg = cex['config']
        which, off = cfg['a'], cfg['b']
        cls = sg.BasicMaxStepGenerator if which == 'max' else sg.BasicMinStepGenerator
        for bv, rv in ((float(asg.get('base', 0.5)) or 0.5, max(float(asg.get('rho', 2.0)), 1.0001)), (0.5, 2.0), (-3.0, 1.5)):
            for num in (1, 4, 12):
                try:
                    got = list(cls(base_step=bv, step_ratio=rv, num_steps=num, offset=off)())
                except Exception as e:  # noqa
                    return True, '%s raises %s' % (cls.__name__, e)
                idxs = range(num) if which == 'max' else range(num - 1, -1, -1)
                want = [bv * rv ** ((-i if which == 'max' else i) + off) for i in idxs]
                if len(got) != len(want) or any(abs(g - w) > 1e-12 * abs(w) for g, w in zip(got, want)):
                    return True, '%s(base=%r, ratio=%r, num=%d, offset=%d) yields %r, documented %r' % (cls.__name__, bv, rv, num, off, got, want)
        if list(cls(base_step=0.0, step_ratio=2.0, num_steps=3, offset=off)()):
            return True, 'zero base step yields steps'
        return False, 'closed form holds on the probes'
    if kind == 'gen':
        cfg = cex['config']
        which, mode = cfg['a'], cfg['b']
        cls = sg.MinStepGenerator if which == 'min' else sg.MaxStepGenerator
        xv = float(asg.get('x', asg.get('x0', 3.0)))
        bv = float(asg.get('base', 0.25)) or 0.25
        for xx in (xv, 0.0, 50.0, -7.5):
            xarr = np.array([xx, -2 * xx + 1]) if mode == 'array-x' else xx
            rr_ = 4.0 if mode == 'array-x' else 3.0
            kw = dict(base_step=bv, step_ratio=rr_, num_steps=5, offset=1, use_exact_steps=False)
            if mode == 'user-nom':
                kw['step_nom'] = 0.75
            if mode in ('default-base', 'default-base-reused'):
                continue
            got = list(cls(**kw)(xarr, 'central', 2, 4))
            nom = 0.75 if mode == 'user-nom' else np.maximum(np.log(1.718281828459045 + np.abs(xarr)), 1)
            idxs = range(4, -1, -1) if which == 'min' else range(5)
            want = [bv * nom * rr_ ** ((i if which == 'min' else -i) + 1) for i in idxs]
            if len(got) != 5 or any(np.any(np.abs(np.asarray(g) - np.asarray(w)) > 1e-12 * np.abs(w)) for g, w in zip(got, want)):
                return True, '%s(%s)(x=%r) yields %r, documented %r' % (cls.__name__, kw, xarr, got, want)
        if mode in ('default-base', 'default-base-reused'):
            g = cls()
            if mode == 'default-base-reused':
                list(g(0.25, 'forward', 1, 2))
            got = list(g(1.0, 'central', 2, 4))
            scale = sg.default_scale('central', 2, 4) if which == 'min' else 500
            b0 = (np.finfo(float).eps ** (1. / spec_scale('central', 2, 4)) if which == 'min' else 2.0) * max(math.log(1.718281828459045 + 1.0), 1)
            n = len(got)
            idxs = range(n - 1, -1, -1) if which == 'min' else range(n)
            want = [b0 * 1.6 ** (i if which == 'min' else -i) for i in idxs]
            if any(abs(a - b) > 1e-9 * abs(b) for a, b in zip(got, want)):
                return True, 'default %s yields %r, documented %r' % (cls.__name__, got, want)
            # use_exact_steps (documented default of MinStepGenerator): the step with exponent 0 is make_exact(base * step_nom(x)),
            # i.e. it satisfies (h + 1) - 1 == h, and it is that function of the PRODUCT (1 ulp of the product, not of the base)
            for xx in (1.0, 50.0, -7.5, 1234.5):
                for gen_kw in (dict(), dict(base_step=0.013), dict(base_step=0.37, step_ratio=2.0)):
                    g = cls(use_exact_steps=True, **gen_kw)
                    got = list(g(xx, 'central', 2, 4))
                    h0 = float(got[-1] if which == 'min' else got[0])
                    nomv = max(math.log(1.718281828459045 + abs(xx)), 1)
                    b = float(g.base_step) * nomv
                    doc = (b + 1.0) - 1.0
                    if (h0 + 1.0) - 1.0 != h0 or h0 != doc:
                        return True, ('%s(use_exact_steps=True, %s)(x=%r): step with exponent 0 is %r; documented make_exact(base_step*step_nom) = %r '
                                      '((h+1)-1 == h: %s)' % (cls.__name__, gen_kw, xx, h0, doc, (h0 + 1.0) - 1.0 == h0))
        return False, 'documented sequence on the probes'
    if kind == 'scale':
        return True, 'default_scale(%s) = %r, documented table %r' % (cex['entry'], cex['got'], cex['want'])
    if kind == 'intwitness':
        bad = int_witness_failures(sg, lim)
        return (True, bad[0]) if bad else (False, 'integer-typed arguments behave like floats')
    if kind == 'cstep':
        import cmath
        for dth in (0.5, -0.5, math.pi / 8, -math.pi / 8):
            for pth in ('spiral', 'radial'):
                g = lim.CStepGenerator(base_step=0.5, step_ratio=4.0, step_nom=1.0, path=pth, dtheta=dth, offset=1,
                                       use_exact_steps=False)
                got = list(g(0.0))
                r = 4.0 * cmath.exp(1j * dth) if pth == 'spiral' else 4.0
                n = 2 * int(round(16.0 / math.log(4.0))) + 1
                want = [0.5 * r ** (i + 1) for i in range(n - 1, -1, -1)]
                if len(got) != len(want) or any(abs(a - b) > 1e-9 * abs(b) for a, b in zip(got, want)):
                    return True, 'CStepGenerator(path=%s, dtheta=%r) yields %r..., documented %r...' % (pth, dth, got[-3:], want[-3:])
        try:
            lim.CStepGenerator(path='zigzag')
            return True, 'invalid path accepted'
        except ValueError:
            pass
        return False, 'documented'
    if kind == 'fp':
        return None, 'floating-point lemma (no library state to replay): %s' % cex.get('obligation')
    return None, 'unknown kind'
