"""C03 -- Jacobian, Gradient, directionaldiff: right entries and shapes for any R^n -> R^m.

The real classes are executed on affine maps with SYMBOLIC coefficients:
  vector-valued  f(x)   = A x + b            A in R^(m x n)   ->  Jacobian shape (m, n), [i, j] == A[i, j]
  matrix-valued  f(x)[i,l] = sum_j A[i,j,l] x_j + b[i,l]      ->  shape (m, n, k), [i, j, l] == A[i, j, l]
  scalar         f(x)   = c . x + d                              ->  Gradient shape (n,) (0-d for n = 1) == c == the Jacobian row
  directionaldiff(f, x, v) == c . v/|v| ;  x0.size != vec.size raises ValueError
z3 decides, for ALL A, b in [-1, 1]: every entry is within tolerance of the coefficient at the SAME index
(A is not symmetric, so a swapped axis is a counterexample).  Two drives per configuration: end to end through the
public __call__ with a short step sequence (selection has one candidate row), and row level
(_derivative + Richardson with the default generator) with the C-order reshape the library applies at the end.
"""
from __future__ import annotations

from fractions import Fraction

import numpy as np
import z3

from .. import symnum as sn
from .. import tracing as tr
from . import common as cm

ID = 'C03'
TOL = Fraction(1, 10 ** 9)

META = {
    'title': 'Jacobian / Gradient / directionaldiff entries and shapes',
    'level': 'other',
    'explanation': (
        'Solver-based bounded checking of the real Jacobian / Gradient / directionaldiff: executed on affine maps with symbolic '
        'coefficient tensors (vector-, matrix- and scalar-valued); z3 (QF_LRA) proves for all coefficients that the returned '
        'array has entry [i,j] (resp. [i,j,l]) equal to the coefficient at that index, that Gradient equals the single Jacobian '
        'row with the documented shape, and directionaldiff equals c.v/|v|.'),
    'functions_encoded': ['numdifftools.core.Jacobian.__call__/_derivative_nonzero_order/_expand_steps', 'numdifftools.core.Gradient.__call__',
                          'numdifftools.core.directionaldiff', 'numdifftools.finite_difference.JacobianDifferenceFunctions.*',
                          'LogJacobianRule._vstack/_atleast_2d', 'LogRule.apply/_apply', '_Limit._extrapolate (single candidate row)'],
    'bounds': {'quick': 'n<=3, m<=3, k<=2; five methods; orders 2 and 4; x fixed at exactly representable points',
               'thorough': 'n<=4, m<=4, k<=3; orders 2,4,6; second point'},
    'outside_claim': ['accuracy on nonlinear maps (truncation)', 'n>4, m>4'],
    'stubs': ['module global np -> symbolic numpy proxy', 'scipy convolve1d -> validated reference'],
    'assumptions': ['exact real arithmetic; coefficients in [-1,1]; tolerance 1e-9 (affine maps have zero truncation error)'],
    'timeout_ms': {'quick': 60000, 'thorough': 120000},
}


def preflight(tier, seed):
    return {'convolve_stub_comparisons': tr.validate_convolve_stub(seed)}


def jobs(tier, seed):
    th = tier == 'thorough'
    out = []
    nmax, mmax, kmax = (4, 4, 3) if th else (3, 3, 2)
    orders = (2, 4, 6) if th else (2, 4)
    for method in cm.METHODS5:
        for order in orders:
            for n in range(1, nmax + 1):
                for m in range(1, mmax + 1):
                    for drive in ('e2e', 'rows'):
                        out.append(('vec-%s-o%d-n%d-m%d-%s' % (method, order, n, m, drive),
                                    dict(kind='vec', method=method, order=order, n=n, m=m, k=0, drive=drive)))
                for m in (1, 2):
                    for k in range(1, kmax + 1):
                        out.append(('mat-%s-o%d-n%d-m%d-k%d' % (method, order, n, m, k),
                                    dict(kind='mat', method=method, order=order, n=n, m=m, k=k, drive='e2e')))
                out.append(('grad-%s-o%d-n%d' % (method, order, n), dict(kind='grad', method=method, order=order, n=n, m=0, k=0, drive='e2e')))
            # matrix-valued f with the DEFAULT generators (per-coordinate nominal steps differ: |x_j| > 1 for some j)
            for (n_, m_, k_) in ((3, 2, 2), (3, 1, 3)):
                out.append(('mat-%s-o%d-n%d-m%d-k%d-rows' % (method, order, n_, m_, k_),
                            dict(kind='mat', method=method, order=order, n=n_, m=m_, k=k_, drive='rows')))
        for n in (1, 2, 3):
            out.append(('dirdiff-%s-n%d' % (method, n), dict(kind='dirdiff', method=method, order=2, n=n, m=0, k=0, drive='e2e')))
        for xs, vs in (((2, 2), (2, 2)), ((2, 2), (4,)), ((4,), (2, 2)), ((2, 3), (2, 3)), ((3, 1), (3,))):
            out.append(('dirdiff-%s-x%s-v%s' % (method, 'x'.join(map(str, xs)), 'x'.join(map(str, vs))),
                        dict(kind='dirdiff', method=method, order=2, n=int(np.prod(xs)), m=0, k=0, drive='e2e', xshape=xs, vshape=vs)))
        for xs in ((2, 2), (3, 1), (1, 2)):
            out.append(('grad-%s-x%s' % (method, 'x'.join(map(str, xs))),
                        dict(kind='grad', method=method, order=2, n=int(np.prod(xs)), m=0, k=0, drive='e2e', xshape=xs)))
    out.append(('view-maps-witness', dict(kind='views', method='all', order=0, n=4, m=0, k=0, drive='e2e')))
    out.append(('dirdiff-guard', dict(kind='guard', method='central', order=2, n=2, m=0, k=0, drive='e2e')))
    return out


XPTS = [0.5, -0.75, 1.25, 2.0, -1.5, 0.25]


def _gen(nd, order=2):
    # ratio 2 for the second-order jobs, ratio 3 for the higher orders (a ratio the library does not use as a default anywhere)
    return nd.MinStepGenerator(base_step=0.25, step_ratio=2.0 if order <= 2 else 3.0, num_steps=3, step_nom=1.0)


def make_map(kind, n, m, k):
    """-> (f, names, expected(idx) -> Sym, expected shape)"""
    names = []
    if kind == 'vec':
        A = [[sn.real_var('A_%d_%d' % (i, j)) for j in range(n)] for i in range(m)]
        b = [sn.real_var('b_%d' % i) for i in range(m)]
        names = ['A_%d_%d' % (i, j) for i in range(m) for j in range(n)] + ['b_%d' % i for i in range(m)]

        def f(x):
            rows = []
            for i in range(m):
                acc = b[i]
                for j in range(n):
                    acc = acc + A[i][j] * x[j]
                rows.append(acc)
            return _obj(rows)
        return f, names, (lambda idx: A[idx[0]][idx[1]]), (m, n)
    if kind == 'mat':
        A = [[[sn.real_var('A_%d_%d_%d' % (i, j, l)) for l in range(k)] for j in range(n)] for i in range(m)]
        b = [[sn.real_var('b_%d_%d' % (i, l)) for l in range(k)] for i in range(m)]
        names = ['A_%d_%d_%d' % (i, j, l) for i in range(m) for j in range(n) for l in range(k)] + \
                ['b_%d_%d' % (i, l) for i in range(m) for l in range(k)]

        def f(x):
            out = np.empty((m, k), dtype=object)
            for i in range(m):
                for l in range(k):
                    acc = b[i][l]
                    for j in range(n):
                        acc = acc + A[i][j][l] * x[j]
                    out[i, l] = acc
            return out.view(sn.SymArr)
        return f, names, (lambda idx: A[idx[0]][idx[1]][idx[2]]), (m, n, k)
    c = [sn.real_var('c_%d' % j) for j in range(n)]
    d = sn.real_var('d0')
    names = ['c_%d' % j for j in range(n)] + ['d0']

    def f(x):
        acc = d
        xx = x if np.ndim(x) else [x]
        if np.ndim(x) > 1:
            xx = [x[idx] for idx in np.ndindex(np.shape(x))]
        for j in range(n):
            acc = acc + c[j] * xx[j]
        return acc
    return f, names, (lambda idx: c[idx[-1]]), (n,)


def _obj(rows):
    out = np.empty(len(rows), dtype=object)
    for i, r in enumerate(rows):
        out[i] = r
    return out.view(sn.SymArr)


def _near(v, want, box, job, name, info):
    v, want = sn.as_symc(v), sn.as_symc(want)
    dr = sn.lift(v.re) - sn.lift(want.re)
    di = sn.lift(v.im)
    tol = sn.ratval(TOL)
    job.prove(name, z3.And(dr <= tol, -dr <= tol, di <= tol, -di <= tol), box, info)


def run_job(job, kind, method, order, n, m, k, drive, xshape=None, vshape=None):
    nd = cm.nd_mods()['nd']
    if kind == 'guard':
        return guard(job, nd)
    if kind == 'views':
        bad = view_failures(nd)
        job.confirm('affine maps that return views of their argument: exact Jacobian (concrete witness runs)', not bad)
        if bad:
            job.violation('views', dict(key='C03:view-map:wrong-jacobian', kind='views', detail=bad[0]))
        return
    if kind == 'dirdiff':
        return dirdiff(job, nd, method, n, xshape, vshape)
    f, names, expected, eshape = make_map(kind if kind != 'grad' else 'scalar', n, m, k)
    box = [z3.And(z3.Real(nm) >= -1, z3.Real(nm) <= 1) for nm in names]
    x = np.array(XPTS[:n])
    if xshape is not None:
        # Gradient of a scalar f of an x with several axes: f is called with the flattened x, result has shape (x.size,)
        x = x.reshape(xshape)
    cls = nd.Gradient if kind == 'grad' else nd.Jacobian

    if drive == 'e2e':
        def harness():
            with tr.traced(), sn.abstract_division(products=True), cm.quiet():
                return cls(f, step=_gen(nd, order), method=method, order=order)(x)
        ex = sn.Explorer(harness, assumptions=box, max_paths=64, timeout_ms=20000)
        paths = list(ex.paths())
        job.absorb_explorer(ex)
        for p in paths:
            if p.exc is not None:
                job.violation('raises', dict(key='C03:%s:raises:%s:%s' % (kind, type(p.exc).__name__, 'm1' if m == 1 and n > 1 else 'gen'),
                                             kind=kind, exc=repr(p.exc)[:300]))
                continue
            J = p.result
            want_shape = eshape if kind != 'grad' else ((n,) if n > 1 else ())
            if not job.confirm('shape', np.shape(J) == want_shape):
                job.violation('shape', dict(key='C03:%s:shape' % kind, kind=kind, got=list(np.shape(J)), want=list(want_shape)))
                continue
            Ja = np.asarray(J)
            for idx in (np.ndindex(want_shape) if want_shape else [()]):
                v = Ja[idx] if want_shape else J
                _near(v, expected(idx if want_shape else (0,)), p.conds(), job, 'entry %s' % (idx,),
                      dict(key='C03:%s:%s:wrong-entry' % (kind, method), kind=kind, idx=list(idx), names=names))
        if kind == 'grad' and paths and paths[0].exc is None:
            # Gradient equals the single Jacobian row
            def harness_j():
                with tr.traced(), sn.abstract_division(products=True), cm.quiet():
                    return nd.Jacobian(f, step=_gen(nd, order), method=method, order=order)(np.ravel(x))
            pj = [q for q in sn.Explorer(harness_j, assumptions=box, max_paths=64).paths() if q.exc is None]
            if pj:
                Jr = np.asarray(pj[0].result)
                g = np.atleast_1d(np.asarray(paths[0].result))
                job.confirm('jacobian-of-scalar shape (1,n)', Jr.shape == (1, n))
                for j in range(n):
                    a, b_ = sn.as_symc(g[j]), sn.as_symc(Jr[0, j])
                    job.prove('gradient[%d] == jacobian[0,%d]' % (j, j), sn.lift(a.re) == sn.lift(b_.re), box,
                              dict(key='C03:grad:differs-from-jacobian-row', kind=kind))
        job.twin('box', box)
        return
    # row level with the default generator
    def harness_r():
        with tr.traced(), cm.quiet():
            d = cls(f, method=method, order=order)
            (der, h, shape), fx = d._derivative(np.atleast_1d(x), (), {})
            rr, _e, _h = d.richardson(der, h)
            return der, rr, shape
    p = sn.run_single(harness_r, assumptions=box)
    job.paths += 1
    if p.exc is not None:
        job.violation('raises', dict(key='C03:%s:raises:%s:%s' % (kind, type(p.exc).__name__, 'm1' if m == 1 and n > 1 else 'gen'),
                                     kind=kind, exc=repr(p.exc)[:300]))
        return
    der, rr, shape = p.result
    if not job.confirm('row-level shape', tuple(shape) == eshape and np.shape(der)[1] == int(np.prod(eshape))):
        job.violation('shape', dict(key='C03:%s:shape' % kind, kind=kind, got=list(shape), want=list(eshape)))
        return
    for stage, rows in (('rule', np.asarray(der)), ('richardson', np.asarray(rr))):
        for r in range(min(rows.shape[0], 4)):
            M = rows[r].reshape(eshape)
            for idx in np.ndindex(eshape):
                _near(M[idx], expected(idx), box, job, '%s row %d entry %s' % (stage, r, idx),
                      dict(key='C03:%s:%s:wrong-entry' % (kind, method), kind=kind, idx=list(idx), names=names))


VECS = ([3.0, 4.0, 12.0, -2.0, 1.0, 5.0], [1.0, -2.0, 2.0, 3.0, -1.0, 0.5])


def dirdiff(job, nd, method, n, xshape=None, vshape=None):
    core = cm.nd_mods()['core']
    f, names, expected, _s = make_map('scalar', n, 0, 0)
    box = [z3.And(z3.Real(nm) >= -1, z3.Real(nm) <= 1) for nm in names]
    x = np.array(XPTS[:n])
    if xshape is not None:
        x = x.reshape(xshape)
    for vec in (VECS[0][:n], VECS[1][:n]):
        vec = np.array(vec)
        if vshape is not None:
            # v "of the same size as x": any shape with that many elements; |v| is the Euclidean length of its elements
            # (for a matrix-shaped v of rank >= 2 the spectral norm would differ)
            vec = vec.reshape(vshape)

        def harness():
            with tr.traced(), sn.abstract_division(products=True), cm.quiet():
                return core.directionaldiff(f, x, vec, step=_gen(nd), method=method)
        ex = sn.Explorer(harness, assumptions=box, max_paths=64)
        for p in ex.paths():
            if p.exc is not None:
                job.violation('raises', dict(key='C03:dirdiff:raises:%s' % type(p.exc).__name__, kind='dirdiff', exc=repr(p.exc)[:200]))
                continue
            unit = vec.ravel() / np.sqrt(np.sum(vec.ravel() ** 2))
            want = None
            for j in range(n):
                t = expected((j,)) * float(unit[j])
                want = t if want is None else want + t
            _near(p.result, want, p.conds(), job, 'directionaldiff == c.v/|v|',
                  dict(key='C03:dirdiff:%s:wrong-value' % method, kind='dirdiff', vec=list(map(float, vec.ravel())), names=names))
        job.absorb_explorer(ex)


VIEW_MAPS = [('x', lambda x: x, lambda n: np.eye(n)),
             ('x[::-1]', lambda x: x[::-1], lambda n: np.eye(n)[::-1]),
             ('x[:1]', lambda x: x[:1], lambda n: np.eye(n)[:1]),
             ('x[1:]', lambda x: x[1:], lambda n: np.eye(n)[1:]),
             ('x.reshape(2,2)', lambda x: x.reshape(2, 2), None)]


def view_failures(nd):
    """CONCRETE witness runs (not solver evidence): affine maps whose value is the argument itself or a numpy view of it.
    The symbolic maps of the other jobs always build new arrays, so a difference function that reuses one work buffer for
    all perturbed points is invisible to them."""
    bad = []
    x = np.array([0.5, -0.75, 1.25, 2.0])
    for method in cm.METHODS5:
        for order in (2, 4):
            for name, f, want in VIEW_MAPS:
                if want is None and method == 'multicomplex':
                    continue        # Bicomplex arguments have no reshape method: not an operation the class offers
                try:
                    with cm.quiet():
                        J = nd.Jacobian(f, method=method, order=order)(x)
                except Exception as e:  # noqa
                    bad.append('Jacobian(lambda x: %s, method=%s, order=%d) raises %s: %s' % (name, method, order, type(e).__name__, e))
                    continue
                if want is None:
                    W = np.zeros((2, 4, 2))
                    for i in range(2):
                        for l in range(2):
                            W[i, 2 * i + l, l] = 1.0
                else:
                    W = want(4)
                if np.shape(J) != W.shape or not np.allclose(J, W, rtol=1e-9, atol=1e-9):
                    bad.append('Jacobian(lambda x: %s, method=%s, order=%d)(x) = %s, expected %s' % (
                        name, method, order, np.array2string(np.asarray(J), precision=4).replace('\n', ' '), np.array2string(W).replace('\n', ' ')))
    return bad


def guard(job, nd):
    core = cm.nd_mods()['core']
    try:
        core.directionaldiff(lambda x: x[0], [1.0, 2.0], [1.0, 2.0, 3.0])
        job.violation('guard', dict(key='C03:dirdiff:size-mismatch-accepted', kind='guard'))
    except ValueError:
        job.confirm('size mismatch raises ValueError', True)
    except Exception as e:  # noqa
        job.violation('guard', dict(key='C03:dirdiff:size-mismatch-other-exception', kind='guard', exc=repr(e)))


# --------------------------------------------------------------------------
def replay(cex):
    nd = cm.nd_mods()['nd']
    core = cm.nd_mods()['core']
    cfg = cex['config']
    kind = cfg['kind']
    method, order, n, m, k = cfg['method'], cfg['order'], cfg['n'], cfg['m'], cfg['k']
    rng = np.random.default_rng(5)
    x = np.array(XPTS[:n])
    if cfg.get('xshape') is not None and kind in ('grad', 'dirdiff'):
        x = x.reshape(cfg['xshape'])
    if kind == 'views':
        bad = view_failures(nd)
        return (True, bad[0]) if bad else (False, 'view maps exact')
    if kind == 'guard':
        try:
            core.directionaldiff(lambda x: x[0], [1.0, 2.0], [1.0, 2.0, 3.0])
        except ValueError:
            return False, 'raises ValueError'
        except Exception as e:  # noqa
            return True, 'raises %s' % type(e).__name__
        return True, 'mismatched sizes accepted'
    stepkw = dict(step=_gen(nd, order)) if cfg.get('drive') == 'e2e' else {}
    for trial in range(4):
        if kind == 'vec':
            A, b = rng.uniform(-1, 1, size=(m, n)), rng.uniform(-1, 1, size=m)
            f = lambda x: A @ x + b  # noqa
            want = A
        elif kind == 'mat':
            A, b = rng.uniform(-1, 1, size=(m, n, k)), rng.uniform(-1, 1, size=(m, k))
            f = lambda x: np.einsum('ijl,j->il', A, x) + b  # noqa
            want = A
        else:
            c, d = rng.uniform(-1, 1, size=n), 0.3
            f = lambda x: c @ np.atleast_1d(x).ravel() + d  # noqa
            want = c if n > 1 else c[0]
        try:
            with cm.quiet():
                if kind == 'dirdiff':
                    vec = np.array(cex.get('vec') or VECS[0][:n])
                    if cfg.get('vshape') is not None:
                        vec = vec.reshape(cfg['vshape'])
                    got = core.directionaldiff(f, x, vec, method=method)
                    want = c @ (vec.ravel() / np.sqrt(np.sum(vec.ravel() ** 2)))
                elif kind == 'grad':
                    got = nd.Gradient(f, method=method, order=order, **stepkw)(x)
                else:
                    got = nd.Jacobian(f, method=method, order=order, **stepkw)(x)
        except Exception as e:  # noqa
            return True, '%s(method=%s, order=%d) on an affine map R^%d->R^%s raises %s: %s' % (
                'Gradient' if kind == 'grad' else ('directionaldiff' if kind == 'dirdiff' else 'Jacobian'), method, order, n,
                (m, k) if kind == 'mat' else m, type(e).__name__, e)
        if np.shape(got) != np.shape(want):
            return True, 'result shape %s, expected %s' % (np.shape(got), np.shape(want))
        if not np.allclose(got, want, rtol=1e-6, atol=1e-8):
            return True, 'result %r, exact %r' % (got, want)
    return False, 'exact on random affine maps'
