"""Obligation bookkeeping, job runner, evidence, replay and exit-code policy shared by
all property checks.

exit 0  every mandatory obligation discharged (unsat / confirmed); known findings
        (listed in /verif/known_findings.json) reproduced and printed
exit 1  a counterexample reproduced on the unmodified library and is not a known finding
exit 2  harness error: inconclusive mandatory obligation, non-reproducing model, stub or
        trace-validation mismatch, unexpected exception in the machinery
"""
from __future__ import annotations

import hashlib
import json
import multiprocessing as mp
import os
import sys
import time
import traceback
from fractions import Fraction

sys.set_int_max_str_digits(0)
VERIF = os.path.dirname(os.path.dirname(os.path.abspath(__file__)))
_OUT = os.environ.get('VERIF_OUT', VERIF)   # development aid, see vf.tracing.REPO_SRC
EVIDENCE_DIR = os.path.join(_OUT, 'evidence')
REPLAY_DIR = os.path.join(_OUT, 'replays')
KNOWN_FILE = os.path.join(VERIF, 'known_findings.json')

EXIT_OK, EXIT_VIOLATION, EXIT_HARNESS = 0, 1, 2


def frac_str(v):
    v = Fraction(v)
    return '%d/%d' % (v.numerator, v.denominator)


def parse_frac(s):
    if isinstance(s, (int, float)):
        return Fraction(s)
    n, d = s.split('/')
    return Fraction(int(n), int(d))


def _cvc5_verdict(smt2_text, tlimit_ms, hard_timeout_s):
    """verdict of cvc5 on an SMT-LIB2 script, computed in a forked child that is killed after hard_timeout_s (cvc5's own
    time limit is not honoured inside some preprocessing passes); None when there is no verdict"""
    import select
    import signal
    r, w = os.pipe()
    pid = os.fork()
    if pid == 0:
        out = b'none'
        try:
            os.close(r)
            import cvc5
            slv = cvc5.Solver()
            slv.setOption('tlimit-per', str(tlimit_ms))
            slv.setLogic('ALL')
            sm = cvc5.SymbolManager(slv)
            prs = cvc5.InputParser(slv, sm)
            prs.setStringInput(cvc5.InputLanguage.SMT_LIB_2_6, smt2_text, 'obligation')
            while True:
                cmd = prs.nextCommand()
                if cmd.isNull():
                    break
                o = str(cmd.invoke(slv, sm)).strip()
                if o in ('sat', 'unsat', 'unknown'):
                    out = o.encode()
        except BaseException:  # noqa
            pass
        try:
            os.write(w, out)
        finally:
            os._exit(0)
    os.close(w)
    res = None
    try:
        ready, _, _ = select.select([r], [], [], hard_timeout_s)
        if ready:
            res = os.read(r, 16).decode() or None
        else:
            os.kill(pid, signal.SIGKILL)
    finally:
        os.close(r)
        try:
            os.waitpid(pid, 0)
        except ChildProcessError:
            pass
    return res if res in ('sat', 'unsat', 'unknown') else None


class Job:
    """Runs inside a worker process; collects obligations of one configuration."""

    def __init__(self, name, config, timeout_ms=60000):
        self.name = name
        self.config = config
        self.timeout_ms = timeout_ms
        self.n_obl = 0
        self.n_discharged = 0
        self.n_nontrivial = 0
        self.n_inconclusive = 0
        self.n_optional_inconclusive = 0
        self.twins_ok = 0
        self.twins_bad = 0
        self.cex = []
        self.errors = []
        self.samples = []
        self.paths = 0
        self.queries = 0
        self.solver_s = 0.0
        self.max_query_s = 0.0
        self.validated = 0
        self.notes = []
        self.excluded = 0
        # second solver: the first few solver-decided obligations of every job are re-decided by cvc5
        self.xcheck_budget = 5 if os.environ.get('VERIF_TIER') == 'thorough' else 1
        self.xchecked = 0
        self.xcheck_disagree = 0
        self.xcheck_inconclusive = 0

    # ---- solver access
    def _solve(self, formulas, timeout_ms=None):
        import z3
        s = z3.Solver()
        s.set('timeout', timeout_ms or self.timeout_ms)
        for f in formulas:
            s.add(f)
        t0 = time.time()
        r = str(s.check())
        dt = time.time() - t0
        self.queries += 1
        self.solver_s += dt
        self.max_query_s = max(self.max_query_s, dt)
        return r, s, dt

    def prove(self, name, claim, assumptions=(), cex_info=None, mandatory=True, timeout_ms=None,
              presimplify=True, prefer=()):
        """claim must hold under assumptions: check sat(assumptions & !claim).
        Returns 'unsat' | 'sat' | 'unknown' | 'trivial'."""
        import z3
        self.n_obl += 1
        if len(self.cex) >= 12:
            # the job already has a dozen counterexamples: its verdict cannot become a pass, so the remaining obligations
            # are not worth solver time (they stay counted as not discharged)
            self.n_skipped = getattr(self, 'n_skipped', 0) + 1
            return 'skipped'
        neg = z3.Not(claim)
        if presimplify:
            sneg = z3.simplify(neg)
            if z3.is_false(sneg):
                self.n_discharged += 1
                self._sample(name, 'trivial', 0.0, 0)
                return 'trivial'
        self.n_nontrivial += 1
        r, s, dt = self._solve(list(assumptions) + [neg], timeout_ms)
        if self.xcheck_budget > 0 and r in ('sat', 'unsat'):
            self._crosscheck(s, r, name)
        self._sample(name, r, dt, len(neg.sexpr()) if len(self.samples) < 3 else 0)
        if r == 'unsat':
            self.n_discharged += 1
        elif r == 'sat':
            m = s.model()
            if prefer:
                # a second, friendlier model (moderate magnitudes) replays more robustly in floating point
                r2, s2, _dt2 = self._solve(list(assumptions) + [neg] + list(prefer), min(timeout_ms or self.timeout_ms, 30000))
                if r2 == 'sat':
                    m = s2.model()
            info = dict(cex_info or {})
            info.setdefault('obligation', name)
            info['job'] = self.name
            info['config'] = self.config
            info['model'] = model_to_dict(m)
            self.cex.append(info)
        else:
            if mandatory:
                self.n_inconclusive += 1
                self.errors.append('inconclusive (%s after %.1fs): %s / %s' % (r, dt, self.name, name))
            else:
                self.n_optional_inconclusive += 1
        return r

    def _crosscheck(self, solver, verdict, name):
        """re-decide the same assertions with cvc5 (SMT-LIB2 dump of the z3 solver); a contradicting verdict is a harness error"""
        try:
            txt = solver.to_smt2()
            if 'FloatingPoint' in txt or 'RoundingMode' in txt or len(txt) > 400000:
                return
            self.xcheck_budget -= 1
            res = _cvc5_verdict(txt, 10000, 20.0)
            if res in ('sat', 'unsat'):
                self.xchecked += 1
                if res != verdict:
                    self.xcheck_disagree += 1
                    self.errors.append('solver disagreement on %s / %s: z3 %s, cvc5 %s' % (self.name, name, verdict, res))
            else:
                self.xcheck_inconclusive += 1
        except Exception as e:  # noqa
            self.xcheck_inconclusive += 1
            self.notes.append('cvc5 cross-check not possible for %s: %s' % (name, str(e)[:120]))

    def twin(self, name, formulas, timeout_ms=None):
        """reachability / vacuity witness: the formulas must be satisfiable."""
        r, s, dt = self._solve(list(formulas), timeout_ms)
        if r == 'sat':
            self.twins_ok += 1
        else:
            self.twins_bad += 1
            self.errors.append('vacuity twin not satisfiable (%s): %s / %s' % (r, self.name, name))
        return r

    def confirm(self, name, ok, detail=''):
        """a non-solver structural fact observed on the trace (shape, identity of objects)"""
        self.n_obl += 1
        if ok:
            self.n_discharged += 1
        else:
            self.unconfirmed = getattr(self, 'unconfirmed', []) + [name]
        return ok

    def violation(self, name, info):
        info = dict(info)
        info.setdefault('obligation', name)
        info['job'] = self.name
        info['config'] = self.config
        info.setdefault('model', {})
        self.cex.append(info)

    def error(self, msg):
        self.errors.append('%s: %s' % (self.name, msg))

    def _sample(self, name, verdict, dt, size):
        if len(self.samples) < 3:
            self.samples.append({'job': self.name, 'obligation': name, 'verdict': verdict,
                                 'solve_s': round(dt, 4), 'smt_chars': size})

    def absorb_explorer(self, ex):
        # every explored path is a case whose feasibility the solver decided (branch by branch)
        if ex.queries:
            self.n_obl += ex.runs
            self.n_discharged += ex.runs
            self.n_nontrivial += ex.runs
        self.paths += ex.runs
        self.queries += ex.queries
        self.solver_s += ex.solver_s
        if ex.truncated:
            self.error('path budget exhausted (%d runs)' % ex.runs)

    def result(self):
        if getattr(self, 'unconfirmed', None) and not self.cex and not self.errors:
            # a structural fact did not hold and the harness recorded no counterexample for it: never a silent pass
            self.errors.append('%s: fact not confirmed and no counterexample recorded: %s' % (self.name, '; '.join(self.unconfirmed[:3])))
        return {k: getattr(self, k) for k in
                ('name', 'config', 'n_obl', 'n_discharged', 'n_nontrivial', 'n_inconclusive',
                 'n_optional_inconclusive', 'twins_ok', 'twins_bad', 'cex', 'errors', 'samples',
                 'paths', 'queries', 'solver_s', 'max_query_s', 'validated', 'notes', 'excluded', 'xchecked', 'xcheck_disagree',
                 'xcheck_inconclusive')}


def model_to_dict(m):
    import z3
    out = {}
    for d in m.decls():
        if d.arity() != 0:
            continue
        v = m[d]
        try:
            if z3.is_int_value(v):
                out[d.name()] = '%d/1' % v.as_long()
            elif z3.is_rational_value(v):
                out[d.name()] = '%d/%d' % (v.numerator_as_long(), v.denominator_as_long())
            elif z3.is_algebraic_value(v):
                a = v.approx(40)
                out[d.name()] = '%d/%d' % (a.numerator_as_long(), a.denominator_as_long())
            elif z3.is_true(v) or z3.is_false(v):
                out[d.name()] = bool(z3.is_true(v))
            elif z3.is_fp(v):
                out[d.name()] = str(v)
            else:
                out[d.name()] = str(v)
        except Exception:  # noqa
            out[d.name()] = str(v)
    return out


# --------------------------------------------------------------------------
# job execution
# --------------------------------------------------------------------------
class JobTimeout(BaseException):
    pass


_TIMED_OUT = mp.Value('i', 0)      # shared with the forked pool workers


def _job_wall_limit():
    # a job that does not finish is an inconclusive result (exit 2), never a hang: the wall-clock limit is generous for the
    # unchanged tree (largest quick job ~100 s, largest thorough job ~15 min).  Once one job of a run has hit the limit the
    # run cannot pass any more: the remaining jobs only get a short budget (they may still contribute counterexamples).
    if _TIMED_OUT.value:
        return 45
    return int(os.environ.get('VERIF_JOB_WALL_S', '3600' if os.environ.get('VERIF_TIER') == 'thorough' else '300'))


def _worker(args):
    modname, jobname, kwargs, timeout_ms = args
    import importlib
    import signal
    t0 = time.time()

    limit = _job_wall_limit()

    def _alarm(signum, frame):
        _TIMED_OUT.value = 1
        raise JobTimeout('job exceeded the wall-clock limit of %d s' % limit)
    try:
        signal.signal(signal.SIGALRM, _alarm)
        signal.alarm(limit)
    except (ValueError, OSError):
        pass
    try:
        import z3
        z3.set_param('verbose', 0)
        mod = importlib.import_module(modname)
        job = Job(jobname, kwargs, timeout_ms)
        mod.run_job(job, **kwargs)
        signal.alarm(0)
        r = job.result()
    except BaseException as e:  # noqa
        try:
            signal.alarm(0)
        except Exception:  # noqa
            pass
        r = Job(jobname, kwargs).result()
        r['errors'].append('%s: machinery exception %s: %s\n%s' % (
            jobname, type(e).__name__, e, traceback.format_exc()[-1500:]))
    r['wall_s'] = time.time() - t0
    return r


def run_jobs(modname, jobs, nproc=None, timeout_ms=60000, progress=True):
    nproc = nproc or min(16, os.cpu_count() or 1)
    args = [(modname, name, kw, timeout_ms) for name, kw in jobs]
    results = []
    if nproc == 1 or len(args) <= 1:
        for a in args:
            results.append(_worker(a))
        return results
    ctxm = mp.get_context('fork')
    with ctxm.Pool(min(nproc, len(args)), maxtasksperchild=20) as pool:
        for i, r in enumerate(pool.imap_unordered(_worker, args, chunksize=1)):
            results.append(r)
            if progress and (i + 1) % 50 == 0:
                print('  .. %d/%d jobs' % (i + 1, len(args)), flush=True)
    return results


# --------------------------------------------------------------------------
# known findings
# --------------------------------------------------------------------------
def load_known():
    if not os.path.exists(KNOWN_FILE):
        return []
    with open(KNOWN_FILE) as f:
        data = json.load(f)
    return [e for e in data.get('findings', []) if e.get('status', 'open') == 'open']


def match_known(prop, key, known):
    for e in known:
        if e['property'] == prop and e['key'] == key:
            return e
    return None


# --------------------------------------------------------------------------
# driver
# --------------------------------------------------------------------------
def write_replay(prop, cex):
    os.makedirs(REPLAY_DIR, exist_ok=True)
    blob = json.dumps(cex, sort_keys=True, default=str)
    h = hashlib.sha256(blob.encode()).hexdigest()[:12]
    path = os.path.join(REPLAY_DIR, '%s-%s.json' % (prop, h))
    with open(path, 'w') as f:
        f.write(blob)
    return path


def drive(mod, tier, seed, nproc=None):
    """Run one property check end to end; returns exit code."""
    t_start = time.time()
    prop = mod.ID
    meta = mod.META
    print('== %s (%s tier, seed %d): %s' % (prop, tier, seed, meta.get('title', '')), flush=True)
    harness_errors = []
    pre = {}
    if hasattr(mod, 'preflight'):
        try:
            pre = mod.preflight(tier, seed) or {}
        except Exception as e:  # noqa
            harness_errors.append('preflight failed: %s: %s' % (type(e).__name__, e))
            traceback.print_exc()
    jobs = mod.jobs(tier, seed)
    timeout_ms = meta.get('timeout_ms', {}).get(tier, 60000)
    results = run_jobs(mod.__name__, jobs, nproc=nproc, timeout_ms=timeout_ms) if not harness_errors else []

    if hasattr(mod, 'postprocess') and results:
        results = mod.postprocess(results)
    tot = dict(n_obl=0, n_discharged=0, n_nontrivial=0, n_inconclusive=0, n_optional_inconclusive=0,
               twins_ok=0, twins_bad=0, paths=0, queries=0, solver_s=0.0, validated=0, excluded=0, xchecked=0, xcheck_disagree=0,
               xcheck_inconclusive=0)
    max_q = 0.0
    samples = []
    cexs = []
    notes = []
    for r in results:
        for k in tot:
            tot[k] += r[k]
        max_q = max(max_q, r['max_query_s'])
        harness_errors.extend(r['errors'])
        cexs.extend(r['cex'])
        notes.extend(r['notes'])
        if len(samples) < 6:
            samples.extend(r['samples'][:2])

    # --- counterexamples: replay on the unmodified library
    known = load_known()
    violations = []
    known_hits = {}
    seen_keys = set()
    weakened = {}
    tried = {}
    done_keys = set()
    for cex in cexs:
        key = cex.get('key') or ('%s:%s' % (cex.get('job'), cex.get('obligation')))
        # at most 4 replays per finding key, none once the key is settled (reproduced / known)
        if key in done_keys or tried.get(key, 0) >= 4:
            continue
        tried[key] = tried.get(key, 0) + 1
        try:
            ok, detail = mod.replay(cex)
        except Exception as e:  # noqa
            ok, detail = None, 'replay raised %s: %s' % (type(e).__name__, e)
        cex['replay_detail'] = detail
        if ok is True:
            done_keys.add(key)
            k = match_known(prop, key, known)
            if k is not None:
                known_hits.setdefault(key, (k, detail))
                continue
            if key in seen_keys:
                continue
            seen_keys.add(key)
            path = write_replay(prop, cex)
            violations.append((key, path, detail))
        elif ok is False:
            if cex.get('stronger_than_property'):
                # the solver refuted a sub-claim that is strictly stronger than the property (e.g. exactness of an
                # intermediate row); the property itself, evaluated on the real library for the solver's inputs, holds
                weakened.setdefault(key, detail)
            else:
                harness_errors.append('counterexample did not reproduce on the real library '
                                      '(encoding/stub suspect): %s [%s] %s' % (key, detail, str(cex.get('exc', ''))[-600:]))
        else:
            harness_errors.append('replay inconclusive: %s [%s] %s' % (key, detail, str(cex.get('exc', ''))[-600:]))

    for key, detail in sorted(weakened.items()):
        print('NOTE: stronger sub-claim refuted by the solver but the property holds on replay: %s [%s]' % (key, str(detail)[:200]),
              flush=True)
    # --- known findings must still be findings (reported every run)
    for key, (k, detail) in sorted(known_hits.items()):
        print('KNOWN-FINDING: property=%s %s [%s]' % (prop, k['what'], key), flush=True)
    # known findings that are demonstrated by a concrete witness rather than a solver model
    if hasattr(mod, 'known_witnesses'):
        for key, fn in mod.known_witnesses().items():
            k = match_known(prop, key, known)
            if k is None or key in known_hits:
                continue
            try:
                still = fn()
            except Exception as e:  # noqa
                still = None
                harness_errors.append('known-finding witness %s raised %s' % (key, e))
            if still:
                print('KNOWN-FINDING: property=%s %s [%s]' % (prop, k['what'], key), flush=True)
                known_hits[key] = (k, 'witness')

    wall = time.time() - t_start
    level = meta.get('level', 'other')
    distinct = tot['n_nontrivial']
    coverage = {
        'explanation': meta['explanation'],
        'obligations': tot['n_obl'],
        'discharged': tot['n_discharged'],
        'inconclusive': tot['n_inconclusive'],
        'optional_inconclusive': tot['n_optional_inconclusive'],
        'evaluations': max(tot['n_obl'], 1),
        'distinct_nontrivial': distinct,
        'rule': 'one evaluation = one solver obligation (negated claim under the path condition and the stated '
                'assumptions), one explored execution path whose branch feasibility the solver decided, or one structural fact '
                'read off the symbolic trace; non-trivial = sent to the solver (the negated claim did not simplify to false '
                'syntactically / the path needed feasibility queries); cases are distinct by construction (one per '
                'configuration x path x output slot)',
        'jobs': len(jobs),
        'paths_explored': tot['paths'],
        'solver_queries': tot['queries'],
        'solver': {'name': 'z3', 'version': _z3_version(), 'total_s': round(tot['solver_s'], 2),
                   'max_query_s': round(max_q, 2)},
        'twins_refuted': tot['twins_ok'],
        'second_solver': {'name': 'cvc5', 'version': _cvc5_version(), 'obligations_rechecked': tot['xchecked'],
                          'disagreements': tot['xcheck_disagree'], 'inconclusive_or_skipped': tot['xcheck_inconclusive'],
                          'rule': 'the first solver-decided obligation(s) of every job (1 quick / 5 thorough), dumped as SMT-LIB2 and '
                                  're-decided by cvc5 in a child process (10 s solver limit, killed after 20 s); floating-point queries are skipped'},
        'trace_validation_points': tot['validated'] + int(pre.get('validated', 0)),
        'excluded_configurations': tot['excluded'],
        'functions_encoded': meta.get('functions_encoded', []),
        'source_hashes': _src_hashes(),
        'bounds': meta['bounds'].get(tier) if isinstance(meta.get('bounds'), dict) else meta.get('bounds'),
        'outside_claim': meta.get('outside_claim', []),
        'stubs': meta.get('stubs', []),
        'samples': samples or [{'note': 'no solver obligation issued'}],
        'known_findings_reproduced': sorted(known_hits),
        'subclaims_refuted_property_held_on_replay': sorted(weakened),
        'preflight': pre,
        'notes': notes[:20],
        'exhaustive': False,
    }
    ev = {
        'property_id': prop, 'tier': tier, 'seed': int(seed), 'level': level,
        'coverage': coverage,
        'assumptions': meta.get('assumptions', []),
        'wall_s': round(wall, 2),
        'violations': len(violations),
    }
    os.makedirs(EVIDENCE_DIR, exist_ok=True)
    with open(os.path.join(EVIDENCE_DIR, '%s.json' % prop), 'w') as f:
        json.dump(ev, f, indent=1, default=str)

    print('   obligations %d, discharged %d (non-trivial %d), inconclusive %d, twins %d, paths %d, '
          'solver %.1fs (max %.1fs), wall %.1fs' % (
              tot['n_obl'], tot['n_discharged'], tot['n_nontrivial'], tot['n_inconclusive'],
              tot['twins_ok'], tot['paths'], tot['solver_s'], max_q, wall), flush=True)
    for key, path, detail in violations:
        print('VIOLATION property=%s replay=%s' % (prop, path), flush=True)
        print('   %s: %s' % (key, str(detail)[:400]), flush=True)
    if violations:
        return EXIT_VIOLATION
    if harness_errors:
        for e in harness_errors[:20]:
            print('HARNESS-ERROR: %s' % str(e)[:1500], flush=True)
        return EXIT_HARNESS
    if tot['n_obl'] == 0:
        print('HARNESS-ERROR: no obligations issued')
        return EXIT_HARNESS
    print('OK %s' % prop, flush=True)
    return EXIT_OK


def _cvc5_version():
    try:
        import cvc5
        return getattr(cvc5, '__version__', 'unknown')
    except Exception:  # noqa
        return 'unavailable'


def _z3_version():
    import z3
    return z3.get_version_string()


def _src_hashes():
    from . import tracing
    return tracing.source_hashes()


def replay_file(mod, path):
    with open(path) as f:
        cex = json.load(f)
    ok, detail = mod.replay(cex)
    print('replay %s: reproduced=%s %s' % (path, ok, detail))
    if ok:
        print('VIOLATION property=%s replay=%s' % (mod.ID, path))
        return EXIT_VIOLATION
    return EXIT_OK if ok is False else EXIT_HARNESS
