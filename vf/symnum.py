"""symnum -- a tracing symbolic executor for numpy code (engine E1 of DESIGN.md).

The real, unmodified functions of /repo/src/numdifftools are run on proxies that
carry z3 terms:

* ``Sym``      real- or integer-sorted scalar (exact arithmetic; Python floats are
               lifted to their exact rational value)
* ``SymBool``  boolean; ``bool()`` of it forks the execution (re-execution based
               exploration, see ``Explorer``)
* ``SymC``     complex number as a pair of ``Sym``
* ``SymArr``   object-dtype ndarray subclass; arithmetic goes through numpy's own
               object loops (so broadcasting, slicing, stacking are numpy's),
               comparisons / where / maximum / abs / masks are merged into ``If``
               terms instead of forking
* ``NpProxy``  module-level replacement of the name ``np`` inside the traced
               modules, forwarding everything to numpy but keeping symbolic arrays
               in ``SymArr`` form and widening freshly allocated buffers to object
               dtype.

Nothing in here knows anything about numdifftools.
"""
from __future__ import annotations

import builtins
import itertools
import math
import time
from fractions import Fraction

import numpy as np
import z3


class Unsupported(Exception):
    """The trace needs something the encoding cannot represent: the obligation is
    *inconclusive*, never a pass and never a violation."""


class Abort(BaseException):
    """Path abandoned (infeasible prefix / path budget).  BaseException so that
    library ``except Exception`` blocks cannot swallow it."""


# --------------------------------------------------------------------------
# lifting
# --------------------------------------------------------------------------
_REAL = z3.RealSort()
_INT = z3.IntSort()


def ratval(v):
    """Exact z3 rational for a python/numpy real number."""
    if isinstance(v, (bool, np.bool_)):
        return z3.RealVal(int(v))
    if isinstance(v, (int, np.integer)):
        return z3.RealVal(int(v))
    if isinstance(v, Fraction):
        return z3.RatVal(v.numerator, v.denominator)
    if isinstance(v, (float, np.floating)):
        v = float(v)
        if math.isnan(v) or math.isinf(v):
            raise Unsupported('non-finite float constant %r in real-arithmetic trace' % v)
        n, d = v.as_integer_ratio()
        return z3.RatVal(n, d)
    raise TypeError('cannot lift %r' % type(v))


def is_sym(v):
    return is_sym(v)


def lift(v):
    """z3 arithmetic term for a Sym or a concrete real."""
    if isinstance(v, Sym):
        return v.t
    if isinstance(v, SymBool):
        return z3.If(v.t, z3.RealVal(1), z3.RealVal(0))
    if isinstance(v, np.ndarray) and v.ndim == 0:
        return lift(v[()])
    if isinstance(v, (complex, np.complexfloating)):
        if v.imag == 0:
            return ratval(v.real)
        raise TypeError('complex constant where a real is needed')
    return ratval(v)


def liftb(v):
    if isinstance(v, SymBool):
        return v.t
    if isinstance(v, (bool, np.bool_)):
        return z3.BoolVal(bool(v))
    if isinstance(v, np.ndarray) and v.ndim == 0:
        return liftb(v[()])
    if isinstance(v, (int, float, np.integer, np.floating)):
        return z3.BoolVal(bool(v))
    if isinstance(v, Sym):
        return v.t != 0
    raise TypeError('cannot lift %r to Bool' % type(v))


def _is_int_term(t):
    return t.sort() == _INT


def _const_value(t):
    """Fraction if the term is a numeral, else None."""
    if z3.is_int_value(t):
        return Fraction(t.as_long())
    if z3.is_rational_value(t):
        return Fraction(t.numerator_as_long(), t.denominator_as_long())
    return None


# --------------------------------------------------------------------------
# exploration context
# --------------------------------------------------------------------------
class Ctx:
    """One execution of a harness: decision prefix, path condition, solver."""

    def __init__(self, prefix, assumptions, timeout_ms, eager=True):
        self.prefix = list(prefix)
        self.pos = 0
        self.pc = []
        self.todo = []
        self.solver = z3.Solver()
        self.solver.set('timeout', timeout_ms)
        self.assumptions = list(assumptions)
        for a in self.assumptions:
            self.solver.add(a)
        self.eager = eager
        self.queries = 0
        self.unknown = 0
        self.solver_s = 0.0
        self.notes = []

    def assume(self, term):
        self.assumptions.append(term)
        self.solver.add(term)

    def _check(self, term):
        self.queries += 1
        t0 = time.time()
        self.solver.push()
        self.solver.add(term)
        r = str(self.solver.check())
        self.solver.pop()
        self.solver_s += time.time() - t0
        if r == 'unknown':
            self.unknown += 1
        return r

    def decide(self, term):
        t = z3.simplify(term)
        if z3.is_true(t):
            return True
        if z3.is_false(t):
            return False
        if self.pos < len(self.prefix):
            d = self.prefix[self.pos]
            self.pos += 1
            c = t if d else z3.Not(t)
            self.pc.append(c)
            self.solver.add(c)
            return d
        if self.eager:
            ft = self._check(t) != 'unsat'
            ff = self._check(z3.Not(t)) != 'unsat'
            if ft and ff:
                self.todo.append(self.prefix[:self.pos] + [False])
                d = True
            elif ft:
                d = True
            elif ff:
                d = False
            else:
                raise Abort('infeasible path')
        else:
            self.todo.append(self.prefix[:self.pos] + [False])
            d = True
        self.prefix.append(d)
        self.pos += 1
        c = t if d else z3.Not(t)
        self.pc.append(c)
        self.solver.add(c)
        return d

    def realize_int(self, term):
        """Concrete python int for an Int/Real term: fork over feasible values."""
        t = z3.simplify(term)
        c = _const_value(t)
        if c is not None:
            if c.denominator != 1:
                raise Unsupported('non-integer index %s' % c)
            return int(c)
        tried = 0
        while True:
            tried += 1
            if tried > 64:
                raise Unsupported('more than 64 feasible values for an index term')
            # ask for a model value (deterministic given the prefix)
            self.queries += 1
            t0 = time.time()
            r = str(self.solver.check())
            self.solver_s += time.time() - t0
            if r != 'sat':
                if r == 'unknown':
                    self.unknown += 1
                    raise Unsupported('cannot realise index term (solver unknown)')
                raise Abort('infeasible path')
            v = self.solver.model().eval(t, model_completion=True)
            fv = _const_value(v)
            if fv is None or fv.denominator != 1:
                raise Unsupported('index term has non-integer model value %s' % v)
            if self.decide(t == int(fv)):
                return int(fv)


_CTX = [None]


def axiom(term):
    """record a sound fact about an uninterpreted term for the current path"""
    c = _CTX[0]
    if c is not None:
        c.assume(term)


def ctx():
    c = _CTX[0]
    if c is None:
        raise Unsupported('symbolic decision outside an Explorer run')
    return c


class Path:
    __slots__ = ('pc', 'assumptions', 'result', 'exc', 'decisions', 'notes')

    def __init__(self, pc, assumptions, result, exc, decisions, notes):
        self.pc = pc
        self.assumptions = assumptions
        self.result = result
        self.exc = exc
        self.decisions = decisions
        self.notes = notes

    def conds(self):
        return list(self.assumptions) + list(self.pc)


class Explorer:
    """Fork-by-re-execution exploration of ``fn`` (called with no arguments)."""

    def __init__(self, fn, assumptions=(), max_paths=4000, timeout_ms=20000, eager=True,
                 catch=(Exception,)):
        self.fn = fn
        self.assumptions = list(assumptions)
        self.max_paths = max_paths
        self.timeout_ms = timeout_ms
        self.eager = eager
        self.catch = catch
        self.runs = 0
        self.queries = 0
        self.unknown = 0
        self.solver_s = 0.0
        self.aborted = 0
        self.truncated = False

    def paths(self):
        stack = [[]]
        while stack:
            if self.runs >= self.max_paths:
                self.truncated = True
                return
            prefix = stack.pop()
            c = Ctx(prefix, self.assumptions, self.timeout_ms, self.eager)
            _CTX[0] = c
            self.runs += 1
            res = exc = None
            aborted = False
            try:
                res = self.fn()
            except Abort:
                aborted = True
            except Unsupported:
                raise
            except self.catch as e:  # noqa
                exc = e
            finally:
                _CTX[0] = None
                self.queries += c.queries
                self.unknown += c.unknown
                self.solver_s += c.solver_s
            stack.extend(c.todo)
            if aborted:
                self.aborted += 1
                continue
            if not self.eager and c.pc:
                s = z3.Solver()
                s.set('timeout', self.timeout_ms)
                s.add(*c.assumptions)
                s.add(*c.pc)
                self.queries += 1
                if str(s.check()) == 'unsat':
                    continue
            yield Path(c.pc, c.assumptions, res, exc, list(c.prefix), c.notes)


def run_single(fn, assumptions=()):
    """Run ``fn`` expecting no fork at all (merged trace); raises if it forks."""
    ex = Explorer(fn, assumptions=assumptions, max_paths=2, catch=())
    ps = list(ex.paths())
    if len(ps) != 1 or ex.truncated:
        raise Unsupported('trace expected to be fork-free forked')
    return ps[0]


# --------------------------------------------------------------------------
# scalars
# --------------------------------------------------------------------------
def _arr_binop(a, b, ufunc):
    """binary op where one side is an ndarray and the other a symbolic scalar."""
    aa = a if isinstance(a, np.ndarray) else scalar_arr(a)
    bb = b if isinstance(b, np.ndarray) else scalar_arr(b)
    return ufunc(SymArr(aa), SymArr(bb))


class SymBool:
    __slots__ = ('t',)
    __array_ufunc__ = None

    def __init__(self, t):
        self.t = t

    def __bool__(self):
        return ctx().decide(self.t)

    def __index__(self):
        return 1 if bool(self) else 0

    __int__ = __index__

    def __float__(self):
        return float(self.__index__())

    def _b(self, o, f):
        if isinstance(o, np.ndarray):
            return NotImplemented
        return SymBool(f(self.t, liftb(o)))

    def __or__(self, o):
        if isinstance(o, np.ndarray):
            return _arr_binop(self, o, np.logical_or)
        return SymBool(z3.Or(self.t, liftb(o)))

    __ror__ = __or__

    def __and__(self, o):
        if isinstance(o, np.ndarray):
            return _arr_binop(self, o, np.logical_and)
        return SymBool(z3.And(self.t, liftb(o)))

    __rand__ = __and__

    def __xor__(self, o):
        return SymBool(z3.Xor(self.t, liftb(o)))

    __rxor__ = __xor__

    def __invert__(self):
        return SymBool(z3.Not(self.t))

    # numpy bool arithmetic: + is or, * is and (bool*bool), bool*number selects
    def __add__(self, o):
        if isinstance(o, np.ndarray):
            return _arr_binop(self, o, np.add)
        if isinstance(o, (SymBool, bool, np.bool_)):
            return SymBool(z3.Or(self.t, liftb(o)))
        return Sym(lift(self)) + o

    __radd__ = __add__

    def __mul__(self, o):
        if isinstance(o, np.ndarray):
            return _arr_binop(self, o, np.multiply)
        if isinstance(o, (SymBool, bool, np.bool_)):
            return SymBool(z3.And(self.t, liftb(o)))
        if isinstance(o, SymC):
            return SymC(self * o.re, self * o.im)
        if isinstance(o, (complex, np.complexfloating)):
            return SymC(self * o.real, self * o.imag)
        return Sym(z3.If(self.t, lift(o), z3.RealVal(0)))

    __rmul__ = __mul__

    def __eq__(self, o):
        return SymBool(self.t == liftb(o))

    def __ne__(self, o):
        return SymBool(self.t != liftb(o))

    __hash__ = None

    def all(self, *a, **k):
        return self

    def any(self, *a, **k):
        return self

    @property
    def shape(self):
        return ()

    @property
    def ndim(self):
        return 0

    @property
    def size(self):
        return 1

    def __repr__(self):
        return 'SymBool(%s)' % (self.t,)


def _pow_term(t, k):
    """t**k for concrete integer k >= 0 as an explicit product (z3's x**0 is unspecified at 0)."""
    if k == 0:
        return z3.RealVal(1) if not _is_int_term(t) else z3.IntVal(1)
    r = None
    base = t
    while k:
        if k & 1:
            r = base if r is None else r * base
        k >>= 1
        if k:
            base = base * base
    return r


class Sym:
    """Real/Int-sorted symbolic scalar."""
    __slots__ = ('t',)
    __array_ufunc__ = None

    def __init__(self, t):
        self.t = t

    # -- helpers
    @property
    def is_int(self):
        return _is_int_term(self.t)

    def _other(self, o):
        """-> z3 term, or NotImplemented / special marker"""
        if isinstance(o, Sym):
            return o.t
        if isinstance(o, SymBool):
            return lift(o)
        if isinstance(o, (bool, np.bool_)):
            return z3.IntVal(int(o)) if self.is_int else z3.RealVal(int(o))
        if isinstance(o, (int, np.integer)):
            return z3.IntVal(int(o)) if self.is_int else z3.RealVal(int(o))
        if isinstance(o, (float, np.floating, Fraction)):
            return ratval(o)
        if isinstance(o, np.ndarray) and o.ndim == 0 and o.dtype != object:
            return self._other(o[()])
        return None

    def _bin(self, o, f, uf, refl=False):
        if isinstance(o, np.ndarray):
            return _arr_binop(o, self, uf) if refl else _arr_binop(self, o, uf)
        if isinstance(o, (complex, np.complexfloating)):
            o = SymC(float(o.real), float(o.imag))
        if isinstance(o, SymC):
            me = SymC(self, 0.0)
            return f(o, me) if refl else f(me, o)
        if type(o).__name__ == 'Bicomplex':
            return NotImplemented
        if isinstance(o, (float, np.floating)) and o != o:
            return float('nan')          # NaN absorbs: x + nan, x * nan, ... are nan for every finite x
        ot = self._other(o)
        if ot is None:
            return NotImplemented
        return Sym(f(ot, self.t) if refl else f(self.t, ot))

    def __add__(self, o):
        return self._bin(o, lambda a, b: a + b, np.add)

    def __radd__(self, o):
        return self._bin(o, lambda a, b: a + b, np.add, True)

    def __sub__(self, o):
        return self._bin(o, lambda a, b: a - b, np.subtract)

    def __rsub__(self, o):
        return self._bin(o, lambda a, b: a - b, np.subtract, True)

    @staticmethod
    def _mul(a, b):
        if _PRODUCTS[0] and not isinstance(a, SymC) and not isinstance(b, SymC):
            # abstract_division(products=True) also abstracts symbolic*symbolic products (keeps queries linear + UF)
            if _const_value(z3.simplify(a)) is None and _const_value(z3.simplify(b)) is None:
                if _is_int_term(a):
                    a = z3.ToReal(a)
                if _is_int_term(b):
                    b = z3.ToReal(b)
                m = uninterpreted('mul', 2)(a, b)
                # sound sign facts about a real product
                axiom(z3.And(z3.Implies(z3.And(a >= 0, b >= 0), m >= 0), z3.Implies(z3.And(a <= 0, b <= 0), m >= 0),
                             z3.Implies(z3.And(a >= 0, b <= 0), m <= 0), z3.Implies(z3.And(a <= 0, b >= 0), m <= 0)))
                return m
        return a * b

    def __mul__(self, o):
        if isinstance(o, SymBool):
            return o * self
        return self._bin(o, Sym._mul, np.multiply)

    def __rmul__(self, o):
        if isinstance(o, SymBool):
            return o * self
        return self._bin(o, Sym._mul, np.multiply, True)

    @staticmethod
    def _div(a, b):
        if isinstance(a, SymC) or isinstance(b, SymC):
            return a / b
        if _is_int_term(a):
            a = z3.ToReal(a)
        if _is_int_term(b):
            b = z3.ToReal(b)
        c = _const_value(b)
        if c is not None:
            if c == 0:
                raise Unsupported('division by the constant zero in the real-arithmetic trace')
            return a * ratval(1 / c)
        if _DIVISION[0] == 'uf':
            # sound abstraction for universally quantified claims: 1/b is an arbitrary function of b
            DENOMINATORS.append(b)
            return a * uninterpreted('recip')(b)
        return a / b

    def __truediv__(self, o):
        return self._bin(o, Sym._div, np.true_divide)

    def __rtruediv__(self, o):
        return self._bin(o, Sym._div, np.true_divide, True)

    def __floordiv__(self, o):
        ot = self._other(o)
        if ot is None:
            return NotImplemented
        return Sym(_floordiv(self.t, ot))

    def __rfloordiv__(self, o):
        ot = self._other(o)
        if ot is None:
            return NotImplemented
        return Sym(_floordiv(ot, self.t))

    def __mod__(self, o):
        ot = self._other(o)
        if ot is None:
            return NotImplemented
        return Sym(_mod(self.t, ot))

    def __rmod__(self, o):
        ot = self._other(o)
        if ot is None:
            return NotImplemented
        return Sym(_mod(ot, self.t))

    def __neg__(self):
        return Sym(-self.t)

    def __pos__(self):
        return self

    def __abs__(self):
        return Sym(z3.If(self.t >= 0, self.t, -self.t))

    def __pow__(self, o):
        if isinstance(o, np.ndarray):
            return _arr_binop(self, o, np.power)
        if isinstance(o, Sym):
            o = o.concrete_int()
        if isinstance(o, (float, np.floating)) and float(o).is_integer():
            o = int(o)
        if not isinstance(o, (int, np.integer)):
            raise Unsupported('symbolic ** non-integer exponent %r' % (o,))
        o = int(o)
        if o >= 0:
            return Sym(_pow_term(self.t, o))
        return Sym(z3.RealVal(1) / _pow_term(z3.ToReal(self.t) if self.is_int else self.t, -o))

    def __rpow__(self, o):
        k = self.concrete_int()
        return o ** k

    def concrete_int(self):
        return ctx().realize_int(self.t)

    def __index__(self):
        return self.concrete_int()

    __int__ = __index__

    def __float__(self):
        raise Unsupported('symbolic value coerced through float() (lost by the trace)')

    def __complex__(self):
        raise Unsupported('symbolic value coerced through complex() (lost by the trace)')

    def __round__(self, ndigits=None):
        # rounding is some function of the value (only congruence is known to the solver)
        if self.is_int:
            return self
        return Sym(uninterpreted('round%s' % ('' if ndigits is None else ndigits))(self.t))

    def __bool__(self):
        return ctx().decide(self.t != 0)

    def _cmp(self, o, f, uf):
        if isinstance(o, np.ndarray):
            return _arr_binop(self, o, uf)
        if isinstance(o, (float, np.floating)) and math.isnan(float(o)):
            return uf is np.not_equal          # every comparison with NaN is False, except !=
        if isinstance(o, SymC):
            return NotImplemented
        ot = self._other(o)
        if ot is None:
            return NotImplemented
        return SymBool(f(self.t, ot))

    def __lt__(self, o):
        return self._cmp(o, lambda a, b: a < b, np.less)

    def __le__(self, o):
        return self._cmp(o, lambda a, b: a <= b, np.less_equal)

    def __gt__(self, o):
        return self._cmp(o, lambda a, b: a > b, np.greater)

    def __ge__(self, o):
        return self._cmp(o, lambda a, b: a >= b, np.greater_equal)

    def __eq__(self, o):
        if isinstance(o, SymC):
            return o == self
        if isinstance(o, (str, type(None), tuple, list)):
            return False
        return self._cmp(o, lambda a, b: a == b, np.equal)

    def __ne__(self, o):
        if isinstance(o, SymC):
            return o != self
        if isinstance(o, (str, type(None), tuple, list)):
            return True
        return self._cmp(o, lambda a, b: a != b, np.not_equal)

    def __hash__(self):
        return hash(self.concrete_int())

    # numpy-style attributes
    @property
    def real(self):
        return self

    @property
    def imag(self):
        return 0.0

    def conjugate(self):
        return self

    conj = conjugate

    @property
    def shape(self):
        return ()

    @property
    def ndim(self):
        return 0

    @property
    def size(self):
        return 1

    def ravel(self):
        return SymArr([self])

    def clip(self, min=None, max=None):
        r = self
        if min is not None:
            r = smax(r, min)
        if max is not None:
            r = smin(r, max)
        return r

    def squeeze(self):
        return self

    def item(self):
        return self

    # transcendental functions: uninterpreted (numpy's object loops call these)
    def _uf(self, name):
        return Sym(uninterpreted(name)(z3.ToReal(self.t) if self.is_int else self.t))

    def exp(self):
        return self._uf('exp')

    def log(self):
        return self._uf('log')

    def sin(self):
        return self._uf('sin')

    def cos(self):
        return self._uf('cos')

    def sinh(self):
        return self._uf('sinh')

    def cosh(self):
        return self._uf('cosh')

    def expm1(self):
        return self._uf('expm1')

    def log1p(self):
        return self._uf('log1p')

    def sqrt(self):
        return self._uf('sqrt')

    def arctan(self):
        return self._uf('arctan')

    def __repr__(self):
        s = str(self.t)
        return 'Sym(%s)' % (s if len(s) < 80 else s[:77] + '...')


_UF = {}
_DIVISION = ['real']
DENOMINATORS = []     # symbolic denominators seen in abstract_division mode (harnesses clear / read this)
_PRODUCTS = [False]


class abstract_division:
    """context manager: division by a symbolic term becomes multiplication with an
    uninterpreted reciprocal (sound over-approximation when *proving* a claim)"""

    def __init__(self, products=False):
        self.products = products

    def __enter__(self):
        self.old = (_DIVISION[0], _PRODUCTS[0])
        _DIVISION[0] = 'uf'
        _PRODUCTS[0] = self.products

    def __exit__(self, *a):
        _DIVISION[0], _PRODUCTS[0] = self.old


def uninterpreted(name, arity=1):
    key = (name, arity)
    if key not in _UF:
        _UF[key] = z3.Function('uf_' + name, *([_REAL] * (arity + 1)))
    return _UF[key]


def _floordiv(a, b):
    if not (_is_int_term(a) and _is_int_term(b)):
        raise Unsupported('// on non-integer symbolic terms')
    c = _const_value(b)
    if c is not None and c > 0:
        return a / b  # z3 Int div: floor for positive divisor
    # general python floor semantics
    q = a / b
    return z3.If(b > 0, q, z3.If(a % b == 0, q, q - 1)) if c is None else \
        z3.If((-a) % (-b) == 0, (-a) / (-b), (-a) / (-b))  # pragma: no cover


def _mod(a, b):
    if not (_is_int_term(a) and _is_int_term(b)):
        raise Unsupported('% on non-integer symbolic terms')
    c = _const_value(b)
    if c is not None and c > 0:
        return a % b
    raise Unsupported('% with a non-positive or symbolic modulus')


def ite(c, a, b):
    """merge two values under a (possibly symbolic) condition"""
    if isinstance(c, (bool, np.bool_)):
        return a if c else b
    if isinstance(c, np.ndarray) and c.ndim == 0:
        return ite(c[()], a, b)
    if not isinstance(c, SymBool):
        return a if c else b
    st = z3.simplify(c.t)
    if z3.is_true(st):
        return a
    if z3.is_false(st):
        return b
    if isinstance(a, (SymBool, bool, np.bool_)) and isinstance(b, (SymBool, bool, np.bool_)):
        return SymBool(z3.If(c.t, liftb(a), liftb(b)))
    if isinstance(a, (SymC, complex, np.complexfloating)) or isinstance(b, (SymC, complex, np.complexfloating)):
        a, b = as_symc(a), as_symc(b)
        return SymC(ite(c, a.re, b.re), ite(c, a.im, b.im))
    if any(isinstance(v, (float, np.floating)) and v != v for v in (a, b)):
        # a NaN branch cannot be merged into a real-sorted If term: decide the condition (forks under an Explorer)
        return a if bool(c) else b
    def _l(v, other):
        # keep integer sort when merging a python int with an Int-sorted term
        if isinstance(v, (int, np.integer)) and not isinstance(v, (bool, np.bool_)) and isinstance(other, Sym) and other.is_int:
            return z3.IntVal(int(v))
        return lift(v)
    ta, tb = _l(a, b), _l(b, a)
    if _is_int_term(ta) != _is_int_term(tb):
        ta = z3.ToReal(ta) if _is_int_term(ta) else ta
        tb = z3.ToReal(tb) if _is_int_term(tb) else tb
    return Sym(z3.If(c.t, ta, tb))


def smax(a, b):
    if not is_sym(a) and not is_sym(b):
        return builtins.max(a, b)
    return ite(a >= b, a, b)


def smin(a, b):
    if not is_sym(a) and not is_sym(b):
        return builtins.min(a, b)
    return ite(a <= b, a, b)


def sym_max(*args, **kw):
    """drop-in for builtins.max merging symbolic scalars into If terms"""
    if kw or len(args) == 1:
        if len(args) == 1 and not kw:
            seq = list(args[0])
            if any(is_sym(v) for v in seq):
                r = seq[0]
                for v in seq[1:]:
                    r = smax(r, v)
                return r
        return builtins.max(*args, **kw)
    if any(isinstance(v, (_AbsQ, _AbsTol)) for v in args):
        return _AbsTol()
    if not any(is_sym(v) for v in args):
        return builtins.max(*args)
    r = args[0]
    for v in args[1:]:
        # python's max keeps the first maximal element: a if a >= b
        r = ite(v > r, v, r)
    return r


def sym_min(*args, **kw):
    if kw or len(args) == 1:
        if len(args) == 1 and not kw:
            seq = list(args[0])
            if any(is_sym(v) for v in seq):
                r = seq[0]
                for v in seq[1:]:
                    r = smin(r, v)
                return r
        return builtins.min(*args, **kw)
    if not any(is_sym(v) for v in args):
        return builtins.min(*args)
    r = args[0]
    for v in args[1:]:
        r = ite(v < r, v, r)
    return r


# --------------------------------------------------------------------------
# complex
# --------------------------------------------------------------------------
def as_symc(v):
    if isinstance(v, SymC):
        return v
    if isinstance(v, (complex, np.complexfloating)):
        return SymC(float(v.real), float(v.imag))
    if isinstance(v, np.ndarray) and v.ndim == 0:
        return as_symc(v[()])
    return SymC(v, 0.0)


def _plain(v):
    """collapse SymBool to Sym so arithmetic works"""
    if isinstance(v, SymBool):
        return Sym(lift(v))
    return v


class SymC:
    """complex number with (possibly) symbolic real and imaginary part"""
    __slots__ = ('re', 'im')
    __array_ufunc__ = None

    def __init__(self, re, im):
        self.re = _plain(re)
        self.im = _plain(im)

    @property
    def real(self):
        return self.re

    @property
    def imag(self):
        return self.im

    def conjugate(self):
        return SymC(self.re, -self.im)

    conj = conjugate

    def _o(self, o):
        if isinstance(o, np.ndarray):
            return None
        if type(o).__name__ == 'Bicomplex':
            return None
        if isinstance(o, (SymC, Sym, SymBool, int, float, complex, np.number, Fraction, bool, np.bool_)):
            return as_symc(o)
        return None

    def __add__(self, o):
        if isinstance(o, np.ndarray):
            return _arr_binop(self, o, np.add)
        o = self._o(o)
        if o is None:
            return NotImplemented
        return SymC(self.re + o.re, self.im + o.im)

    def __radd__(self, o):
        if isinstance(o, np.ndarray):
            return _arr_binop(o, self, np.add)
        return self.__add__(o)

    def __sub__(self, o):
        if isinstance(o, np.ndarray):
            return _arr_binop(self, o, np.subtract)
        o = self._o(o)
        if o is None:
            return NotImplemented
        return SymC(self.re - o.re, self.im - o.im)

    def __rsub__(self, o):
        if isinstance(o, np.ndarray):
            return _arr_binop(o, self, np.subtract)
        o = self._o(o)
        if o is None:
            return NotImplemented
        return SymC(o.re - self.re, o.im - self.im)

    def __mul__(self, o):
        if isinstance(o, np.ndarray):
            return _arr_binop(self, o, np.multiply)
        o = self._o(o)
        if o is None:
            return NotImplemented
        return SymC(_sub0(_mul0(self.re, o.re), _mul0(self.im, o.im)),
                    _add0(_mul0(self.re, o.im), _mul0(self.im, o.re)))

    def __rmul__(self, o):
        if isinstance(o, np.ndarray):
            return _arr_binop(o, self, np.multiply)
        return self.__mul__(o)

    def __truediv__(self, o):
        if isinstance(o, np.ndarray):
            return _arr_binop(self, o, np.true_divide)
        o = self._o(o)
        if o is None:
            return NotImplemented
        if _is_zero(o.im):
            return SymC(self.re / o.re, self.im / o.re)
        den = _add0(_mul0(o.re, o.re), _mul0(o.im, o.im))
        num = self * o.conjugate()
        return SymC(num.re / den, num.im / den)

    def __rtruediv__(self, o):
        if isinstance(o, np.ndarray):
            return _arr_binop(o, self, np.true_divide)
        o = self._o(o)
        if o is None:
            return NotImplemented
        return o.__truediv__(self)

    def __neg__(self):
        return SymC(-self.re, -self.im)

    def __pos__(self):
        return self

    def __pow__(self, k):
        if isinstance(k, np.ndarray):
            return _arr_binop(self, k, np.power)
        if isinstance(k, (float, np.floating)) and float(k).is_integer():
            k = int(k)
        if isinstance(k, Sym):
            k = k.concrete_int()
        if isinstance(k, (float, np.floating)) and np.isfinite(k):
            # principal power with a fixed non-integer real exponent: one uninterpreted function per exponent
            return self._cuf(pow_uf_name(k))
        if not isinstance(k, (int, np.integer)):
            raise Unsupported('complex symbolic ** non-integer')
        k = int(k)
        neg = k < 0
        k = abs(k)
        r = SymC(1.0, 0.0)
        base = self
        while k:
            if k & 1:
                r = r * base
            k >>= 1
            if k:
                base = base * base
        return (SymC(1.0, 0.0) / r) if neg else r

    def __abs__(self):
        if _is_zero(self.im):
            return abs(self.re)
        if _is_zero(self.re):
            return abs(self.im)
        n2 = _add0(_mul0(self.re, self.re), _mul0(self.im, self.im))
        r = uninterpreted('sqrt')(lift(n2))
        are, aim = lift(abs(self.re)), lift(abs(self.im))
        # linear consequences of r = sqrt(re^2+im^2) (sound axioms, added to the path assumptions)
        axiom(z3.And(r >= are, r >= aim, r <= are + aim))
        return Sym(r)

    def abs2(self):
        return _add0(_mul0(self.re, self.re), _mul0(self.im, self.im))

    def clip(self, min=None, max=None):
        # numpy clips complex values with the lexicographic order
        r = self
        if min is not None:
            r = ite(r < min, as_symc(min), r)
        if max is not None:
            r = ite(r > max, as_symc(max), r)
        return r

    # complex elementary functions: a pair of uninterpreted real functions of (re, im)
    def _cuf(self, name):
        re, im = lift(self.re), lift(self.im)
        return SymC(Sym(uninterpreted('c' + name + '_re', 2)(re, im)), Sym(uninterpreted('c' + name + '_im', 2)(re, im)))

    def exp(self):
        return self._cuf('exp')

    def log(self):
        return self._cuf('log')

    def sin(self):
        return self._cuf('sin')

    def cos(self):
        return self._cuf('cos')

    def sinh(self):
        return self._cuf('sinh')

    def cosh(self):
        return self._cuf('cosh')

    def expm1(self):
        return self._cuf('expm1')

    def log1p(self):
        return self._cuf('log1p')

    def sqrt(self):
        return self._cuf('sqrt')

    def arctan(self):
        return self._cuf('arctan')

    def __eq__(self, o):
        o = self._o(o)
        if o is None:
            return NotImplemented
        return _and(_eq0(self.re, o.re), _eq0(self.im, o.im))

    def __ne__(self, o):
        r = self.__eq__(o)
        if r is NotImplemented:
            return r
        return ~r if isinstance(r, SymBool) else (not r)

    # numpy orders complex numbers lexicographically (real part, then imaginary part)
    def _lex(self, o, strict_op, final_op):
        if isinstance(o, np.ndarray):
            return NotImplemented
        o = self._o(o)
        if o is None:
            return NotImplemented
        return _or(strict_op(self.re, o.re), _and(_eq0(self.re, o.re), final_op(self.im, o.im)))

    def __lt__(self, o):
        return self._lex(o, lambda a, b: a < b, lambda a, b: a < b)

    def __le__(self, o):
        return self._lex(o, lambda a, b: a < b, lambda a, b: a <= b)

    def __gt__(self, o):
        return self._lex(o, lambda a, b: a > b, lambda a, b: a > b)

    def __ge__(self, o):
        return self._lex(o, lambda a, b: a > b, lambda a, b: a >= b)
    __hash__ = None

    def __float__(self):
        raise Unsupported('symbolic complex coerced through float()')

    def __complex__(self):
        raise Unsupported('symbolic complex coerced through complex()')

    @property
    def shape(self):
        return ()

    @property
    def ndim(self):
        return 0

    @property
    def size(self):
        return 1

    def __repr__(self):
        return 'SymC(%r, %r)' % (self.re, self.im)


def _is_zero(v):
    if isinstance(v, Sym):
        c = _const_value(z3.simplify(v.t))
        return c is not None and c == 0
    if isinstance(v, SymBool):
        return False
    return v == 0


def _mul0(a, b):
    if _is_zero(a) or _is_zero(b):
        return 0.0
    return a * b


def _add0(a, b):
    if _is_zero(a):
        return b
    if _is_zero(b):
        return a
    return a + b


def _sub0(a, b):
    if _is_zero(b):
        return a
    if _is_zero(a):
        return -b
    return a - b


def _eq0(a, b):
    r = (a == b)
    return r


def _and(a, b):
    if isinstance(a, SymBool) or isinstance(b, SymBool):
        return SymBool(z3.And(liftb(a), liftb(b)))
    return bool(a) and bool(b)


def _or(a, b):
    if isinstance(a, SymBool) or isinstance(b, SymBool):
        return SymBool(z3.Or(liftb(a), liftb(b)))
    return bool(a) or bool(b)


def _not(a):
    if isinstance(a, SymBool):
        return ~a
    return not a


# --------------------------------------------------------------------------
# arrays
# --------------------------------------------------------------------------
def scalar_arr(v):
    a = np.empty((), dtype=object)
    a[()] = v
    return a.view(SymArr)


def has_sym(a):
    if isinstance(a, np.ndarray):
        if a.dtype != object:
            return False
        for v in a.flat:
            if is_sym(v):
                return True
            if type(v).__name__ == 'Bicomplex':
                return True
        return False
    if isinstance(a, (list, tuple)):
        return any(has_sym(v) for v in a)
    return is_sym(a)


def normalize(r):
    """Object arrays holding only concrete numbers are turned back into plain
    numeric arrays; object arrays with symbols become SymArr."""
    if isinstance(r, tuple):
        return tuple(normalize(x) for x in r)
    if isinstance(r, list):
        return [normalize(x) for x in r]
    if not isinstance(r, np.ndarray):
        return r
    if r.dtype != object:
        return np.asarray(r) if isinstance(r, SymArr) else r
    if r.size == 0:
        return np.asarray(r, dtype=float)
    kinds = set()
    for v in r.flat:
        if is_sym(v):
            return r if isinstance(r, SymArr) else r.view(SymArr)
        if isinstance(v, (bool, np.bool_)):
            kinds.add('b')
        elif isinstance(v, (int, np.integer)):
            kinds.add('i')
        elif isinstance(v, (float, np.floating)):
            kinds.add('f')
        elif isinstance(v, (complex, np.complexfloating)):
            kinds.add('c')
        else:
            return np.asarray(r) if isinstance(r, SymArr) else r  # foreign objects (Bicomplex, ...)
    base = np.asarray(r)
    if 'c' in kinds:
        return base.astype(complex)
    if 'f' in kinds:
        return base.astype(float)
    if 'i' in kinds:
        return base.astype(int)
    return base.astype(bool)


def unwrap0(r):
    """0-d object arrays -> their element"""
    if isinstance(r, np.ndarray) and r.ndim == 0 and r.dtype == object:
        return r[()]
    return r


_CMP = {np.less: lambda a, b: a < b, np.less_equal: lambda a, b: a <= b,
        np.greater: lambda a, b: a > b, np.greater_equal: lambda a, b: a >= b,
        np.equal: lambda a, b: a == b, np.not_equal: lambda a, b: a != b}


def _el_abs(v):
    return abs(v)


def _el_isnan(v):
    if is_sym(v):
        return False
    try:
        return bool(np.isnan(v))
    except TypeError:
        return False


def _el_iscomplex(v):
    if isinstance(v, SymC):
        r = (v.im != 0)
        return r
    if isinstance(v, (Sym, SymBool)):
        return False
    return bool(np.iscomplex(v))


def _el_real(v):
    if isinstance(v, (SymC, Sym)):
        return v.real
    if isinstance(v, SymBool):
        return v
    return np.real(v)[()] if isinstance(np.real(v), np.ndarray) else np.real(v)


def _el_imag(v):
    if isinstance(v, (SymC, Sym)):
        return v.imag
    if isinstance(v, SymBool):
        return 0.0
    return np.imag(v)[()] if isinstance(np.imag(v), np.ndarray) else np.imag(v)


def _el_conj(v):
    if isinstance(v, (SymC, Sym)):
        return v.conjugate()
    return np.conjugate(v)


def _el_sign(v):
    if isinstance(v, Sym):
        return Sym(z3.If(v.t > 0, z3.RealVal(1), z3.If(v.t < 0, z3.RealVal(-1), z3.RealVal(0))))
    return np.sign(v)


def _el_logical_not(v):
    return _not(v if isinstance(v, SymBool) else (v != 0 if isinstance(v, Sym) else bool(v)))


def _tb(v):
    """truthiness as SymBool/bool without forking"""
    if isinstance(v, SymBool):
        return v
    if isinstance(v, Sym):
        return v != 0
    if isinstance(v, SymC):
        return v != 0
    return bool(v)


_UNARY = {np.absolute: _el_abs, np.isnan: _el_isnan, np.conjugate: _el_conj, np.sign: _el_sign,
          np.logical_not: _el_logical_not, np.invert: lambda v: _not(_tb(v)),
          np.isfinite: lambda v: True if is_sym(v) else bool(np.isfinite(v)),
          np.isinf: lambda v: False if is_sym(v) else bool(np.isinf(v)),
          np.square: lambda v: v * v}
_BINARY = {np.maximum: smax, np.minimum: smin, np.fmax: smax, np.fmin: smin,
           np.logical_or: lambda a, b: _or(_tb(a), _tb(b)),
           np.logical_and: lambda a, b: _and(_tb(a), _tb(b)),
           np.bitwise_or: lambda a, b: _or(_tb(a), _tb(b)) if (isinstance(a, (SymBool, bool, np.bool_)) or isinstance(b, (SymBool, bool, np.bool_))) else a | b,
           np.bitwise_and: lambda a, b: _and(_tb(a), _tb(b)) if (isinstance(a, (SymBool, bool, np.bool_)) or isinstance(b, (SymBool, bool, np.bool_))) else a & b,
           }
_BINARY.update(_CMP)
_REDUCE = {np.logical_or: (lambda a, b: _or(_tb(a), _tb(b)), False),
           np.logical_and: (lambda a, b: _and(_tb(a), _tb(b)), True),
           np.maximum: (smax, None), np.minimum: (smin, None)}


def _obj(a):
    """base-class object view / conversion of an operand"""
    if isinstance(a, np.ndarray):
        b = np.asarray(a)
        if b.dtype != object:
            b = b.astype(object)
        return b
    if is_sym(a):
        o = np.empty((), dtype=object)
        o[()] = a
        return o
    return np.asarray(a, dtype=object)


def _elementwise(fn, *ins):
    srcs = [_obj(a) for a in ins]
    arrs = np.broadcast_arrays(*srcs)
    # numpy's elementwise kernels allocate their output in the memory order of the inputs ('K'): Fortran order when every
    # operand with the full shape is Fortran- and not C-contiguous
    full = [a for a in srcs if isinstance(a, np.ndarray) and a.ndim >= 2 and a.shape == arrs[0].shape]
    forder = bool(full) and builtins.all(a.flags.f_contiguous and not a.flags.c_contiguous for a in full)
    out = np.empty(arrs[0].shape, dtype=object, order='F' if forder else 'C')
    if out.ndim == 0:
        out[()] = fn(*[a[()] for a in arrs])
        return out
    for idx in np.ndindex(out.shape):
        out[idx] = fn(*[a[idx] for a in arrs])
    return out


HANDLED = {}


def implements(*funcs):
    def d(g):
        for f in funcs:
            HANDLED[f] = g
        return g
    return d


class SymArr(np.ndarray):
    """object ndarray whose comparison / selection ufuncs stay symbolic"""

    def __new__(cls, a):
        if isinstance(a, SymArr):
            return a
        if isinstance(a, np.ndarray) and a.dtype == object:
            return a.view(cls)
        if is_sym(a):
            return scalar_arr(a)
        if isinstance(a, (list, tuple)) and builtins.any(isinstance(v, SymC) for v in a):
            o = np.empty(len(a), dtype=object)
            for i, v in enumerate(a):
                o[i] = v
            return o.view(cls)
        return np.array(a, dtype=object).view(cls)

    def __array_finalize__(self, obj):
        pass

    # ---- ufuncs
    def __array_ufunc__(self, uf, method, *ins, out=None, **kw):
        outs = None
        if out is not None:
            outs = tuple(np.asarray(o) if isinstance(o, np.ndarray) else o for o in out)
        if method == '__call__':
            if uf in _UNARY and len(ins) == 1:
                r = _elementwise(_UNARY[uf], ins[0])
            elif uf in _BINARY and len(ins) == 2:
                r = _elementwise(_BINARY[uf], ins[0], ins[1])
            else:
                kw.pop('dtype', None)
                r = uf(*[_obj(a) for a in ins], **kw)
            if outs is not None:
                tgt = outs[0]
                if tgt.dtype != object and has_sym(r):
                    raise Unsupported('symbolic result written into a %s buffer' % tgt.dtype)
                tgt[...] = r
                return out[0]
            if isinstance(r, np.ndarray):
                return r.view(SymArr) if r.dtype == object else r
            return r
        if method == 'reduce':
            a = _obj(ins[0])
            axis = kw.get('axis', 0)
            if uf in _REDUCE:
                fn, init = _REDUCE[uf]
                return _reduce(a, fn, init, axis, kw.get('keepdims', False))
            kw.pop('dtype', None)
            kw = {k: v for k, v in kw.items() if k in ('axis', 'keepdims', 'initial')}
            r = uf.reduce(a, **kw)
            if isinstance(r, np.ndarray) and r.dtype == object:
                return r.view(SymArr)
            return r
        if method == 'outer':
            r = uf.outer(*[_obj(a) for a in ins], **kw)
            return r.view(SymArr) if isinstance(r, np.ndarray) and r.dtype == object else r
        if method == 'accumulate':
            r = uf.accumulate(_obj(ins[0]), **kw)
            return r.view(SymArr) if isinstance(r, np.ndarray) and r.dtype == object else r
        raise Unsupported('ufunc method %s on symbolic array' % method)

    # ---- numpy API functions
    def __array_function__(self, func, types, args, kwargs):
        if func in HANDLED:
            return HANDLED[func](*args, **kwargs)

        def strip(a):
            if isinstance(a, SymArr):
                return np.asarray(a)
            if isinstance(a, (list, tuple)):
                return type(a)(strip(x) for x in a)
            return a

        r = func(*strip(args), **{k: strip(v) for k, v in kwargs.items()})
        return _wrap(r)

    # ---- item assignment with symbolic masks
    def __setitem__(self, key, val):
        base = np.asarray(self)
        if isinstance(key, np.ndarray) and key.dtype == object and key.size and \
                builtins.any(isinstance(k, SymBool) for k in key.flat):
            k = np.broadcast_to(np.asarray(key), base.shape)
            v = np.broadcast_to(_obj(val), base.shape)
            for idx in np.ndindex(base.shape):
                base[idx] = ite(k[idx], v[idx], base[idx])
            return
        if isinstance(key, SymBool):
            v = np.asarray(_obj(val))
            if v.shape == (1,) + base.shape:      # a[True] selects with a leading axis of length 1
                v = v.reshape(base.shape)
            v = np.broadcast_to(v, base.shape)
            for idx in np.ndindex(base.shape):
                base[idx] = ite(key, v[idx], base[idx])
            return
        if isinstance(val, SymArr):
            val = np.asarray(val)
        np.ndarray.__setitem__(base, key, val)

    def __getitem__(self, key):
        if isinstance(key, SymBool):
            key = np.bool_(bool(key))     # scalar boolean index: decided (forks under an Explorer)
        if isinstance(key, SymArr):
            key = normalize(key)
            if isinstance(key, SymArr):
                flat = list(np.asarray(key).flat)
                if builtins.all(isinstance(k, (SymBool, bool, np.bool_)) for k in flat):
                    # boolean mask with symbolic entries: the selection has a data-dependent size, so every entry is decided
                    # (bool() forks under an Explorer, one path per feasible mask)
                    key = np.array([bool(k) for k in flat], dtype=bool).reshape(np.shape(key))
                else:
                    raise Unsupported('indexing with a symbolic array')
        r = np.ndarray.__getitem__(self, key)
        return r

    # ---- attribute overrides
    @property
    def real(self):
        return _elementwise(_el_real, self).view(SymArr)

    @property
    def imag(self):
        return _elementwise(_el_imag, self).view(SymArr)

    def conjugate(self):
        return _elementwise(_el_conj, self).view(SymArr)

    conj = conjugate

    def clip(self, min=None, max=None, **kw):
        r = self
        if min is not None:
            r = np.maximum(r, min)
        if max is not None:
            r = np.minimum(r, max)
        return r

    def any(self, axis=None, **kw):
        return _reduce(np.asarray(self), _REDUCE[np.logical_or][0], False, axis, False)

    def all(self, axis=None, **kw):
        return _reduce(np.asarray(self), _REDUCE[np.logical_and][0], True, axis, False)

    def __bool__(self):
        if self.size != 1:
            raise ValueError('truth value of a symbolic array with more than one element')
        return bool(_tb(np.asarray(self).flat[0]))

    def __float__(self):
        v = np.asarray(self).flat[0]
        return float(v)

    def astype(self, dtype, **kw):
        if np.dtype(dtype) == object:
            return self
        if has_sym(self):
            if np.dtype(dtype).kind in 'fc':
                return self
            raise Unsupported('symbolic array cast to %s' % dtype)
        return np.asarray(self).astype(dtype, **kw)


def _wrap(r):
    if isinstance(r, np.ndarray):
        return r.view(SymArr) if (r.dtype == object and not isinstance(r, SymArr)) else r
    if isinstance(r, tuple):
        return tuple(_wrap(x) for x in r)
    if isinstance(r, list):
        return [_wrap(x) for x in r]
    return r


def _reduce(a, fn, init, axis, keepdims):
    a = np.asarray(a)
    if a.dtype != object:
        a = a.astype(object)
    if axis is None:
        vals = list(a.flat)
        if not vals:
            return init
        r = vals[0] if init is None else fn(init, vals[0])
        for v in vals[1:]:
            r = fn(r, v)
        return r
    a = np.moveaxis(a, axis, 0)
    out = np.empty(a.shape[1:], dtype=object)
    if out.ndim == 0:
        out[()] = _reduce(a, fn, init, None, False)
        return out[()]
    for idx in np.ndindex(out.shape):
        col = [a[(i,) + idx] for i in range(a.shape[0])]
        r = col[0] if init is None else fn(init, col[0])
        for v in col[1:]:
            r = fn(r, v)
        out[idx] = r
    return out.view(SymArr)


# ---- symbolic implementations of numpy API functions -----------------------
@implements(np.where)
def _where(c, a=None, b=None):
    if a is None:
        c = normalize(np.asarray(c))
        if isinstance(c, SymArr):
            return _nonzero_fork(c)
        return np.where(c)
    return normalize(_elementwise(ite, c, a, b).view(SymArr))


def _nonzero_fork(c):
    flat = [bool(_tb(v)) for v in np.asarray(c).ravel()]
    return np.nonzero(np.array(flat).reshape(np.shape(c)))


@implements(np.any)
def _any(a, axis=None, **kw):
    return _reduce(_obj(a), _REDUCE[np.logical_or][0], False, axis, False)


@implements(np.all)
def _all(a, axis=None, **kw):
    return _reduce(_obj(a), _REDUCE[np.logical_and][0], True, axis, False)


@implements(np.iscomplex)
def _iscomplex(a):
    return unwrap0(normalize(_elementwise(_el_iscomplex, a).view(SymArr)))


@implements(np.iscomplexobj)
def _iscomplexobj(a):
    a = _obj(a)
    return builtins.any(isinstance(v, (SymC, complex, np.complexfloating)) for v in a.flat)


@implements(np.isrealobj)
def _isrealobj(a):
    return not _iscomplexobj(a)


@implements(np.real)
def _real(a):
    return unwrap0(_elementwise(_el_real, a).view(SymArr))


@implements(np.imag)
def _imag(a):
    return unwrap0(_elementwise(_el_imag, a).view(SymArr))


@implements(np.flatnonzero)
def _flatnonzero(a):
    a = normalize(np.asarray(a))
    if not isinstance(a, SymArr):
        return np.flatnonzero(a)
    return np.array([i for i, v in enumerate(np.asarray(a).ravel()) if bool(_tb(v))], dtype=int)


@implements(np.nonzero)
def _nonzero(a):
    a = normalize(np.asarray(a))
    if not isinstance(a, SymArr):
        return np.nonzero(a)
    return _nonzero_fork(a)


def _sorted_network(col):
    """merged (fork-free) sort of a list of symbolic reals: odd-even transposition network"""
    col = list(col)
    n = len(col)
    for rnd in range(n):
        for t in range(rnd % 2, n - 1, 2):
            a, b = col[t], col[t + 1]
            col[t], col[t + 1] = smin(a, b), smax(a, b)
    return col


def _percentile_impl(a, q, axis):
    a = _obj(a)
    if builtins.any(isinstance(v, (SymC, complex, np.complexfloating)) for v in a.flat):
        # numpy >= 2 rejects complex input
        raise TypeError('a must be an array of real numbers')
    q = np.atleast_1d(np.asarray(q, dtype=float))
    if axis is None:
        a = a.reshape(-1, 1)
        squeeze = True
    else:
        if axis != 0:
            a = np.moveaxis(a, axis, 0)
        squeeze = False
    kk = a.shape[0]
    rest = a.shape[1:]
    a2 = a.reshape(kk, -1)
    res = np.empty((len(q), a2.shape[1]), dtype=object)
    for j in range(a2.shape[1]):
        col = _sorted_network(a2[:, j])
        for qi, qq in enumerate(q):
            v = Fraction(float(qq)) / 100 * (kk - 1)
            f = int(math.floor(v))
            g = v - f
            if g == 0:
                res[qi, j] = col[f]
            else:
                # numpy 'linear': lerp(a, b, t) = a + (b-a)*t  (t<0.5) else b - (b-a)*(1-t)
                # identical in exact arithmetic
                res[qi, j] = col[f] + (col[f + 1] - col[f]) * g
    res = res.reshape((len(q),) + rest)
    if squeeze:
        res = res.reshape(len(q))
    return res.view(SymArr)


@implements(np.percentile)
def _percentile(a, q, axis=None, **kw):
    scalar_q = np.ndim(q) == 0
    r = _percentile_impl(a, q, axis)
    return unwrap0(r[0]) if scalar_q else r


@implements(np.nanpercentile)
def _nanpercentile(a, q, axis=None, **kw):
    return _percentile(a, q, axis)


@implements(np.median)
def _median(a, axis=None, **kw):
    return _percentile(a, 50, axis)


def _is_nan_value(v):
    return isinstance(v, (float, np.floating)) and math.isnan(float(v))


def _nan_smin(a, b):
    if _is_nan_value(a):
        return b
    if _is_nan_value(b):
        return a
    return smin(a, b)


@implements(np.nanmin)
def _nanmin(a, axis=None, **kw):
    return _reduce(_obj(a), _nan_smin, None, axis, False)


@implements(np.min, np.amin)
def _min(a, axis=None, **kw):
    return _reduce(_obj(a), smin, None, axis, False)


@implements(np.nanmax, np.max, np.amax)
def _nanmax(a, axis=None, **kw):
    return _reduce(_obj(a), smax, None, axis, False)


@implements(np.nanargmin, np.argmin)
def _nanargmin(a, axis=None, **kw):
    a = _obj(a)
    if axis is None:
        a = a.reshape(-1, 1)
    elif axis != 0:
        a = np.moveaxis(a, axis, 0)
    shp = a.shape[1:]
    a2 = a.reshape(a.shape[0], -1)
    out = np.zeros(a2.shape[1], dtype=int)
    for j in range(a2.shape[1]):
        cand = [i for i in range(a2.shape[0]) if not _is_nan_value(a2[i, j])]
        if not cand:
            # numpy: nanargmin raises for a slice that holds only NaN
            raise ValueError('All-NaN slice encountered')
        best = cand[0]
        for i in cand[1:]:
            if bool(_tb(a2[i, j] < a2[best, j])):   # forks
                best = i
        out[j] = best
    if axis is None:
        return int(out[0])
    return out.reshape(shp)


@implements(np.clip)
def _clip(a, a_min=None, a_max=None, **kw):
    r = a
    if a_min is not None:
        r = np.maximum(r, a_min)
    if a_max is not None:
        r = np.minimum(r, a_max)
    return r


@implements(np.sum)
def _sum(a, axis=None, **kw):
    a = _obj(a)
    r = np.add.reduce(a, axis=axis) if axis is not None else np.add.reduce(a.ravel())
    return r.view(SymArr) if isinstance(r, np.ndarray) else r


@implements(np.result_type)
def _result_type(*args):
    if builtins.any(is_sym(a) or (isinstance(a, np.ndarray) and a.dtype == object) for a in args):
        return np.dtype(object)
    return np.result_type(*args)


@implements(np.put)
def _put(a, ind, v, mode='raise'):
    base = np.asarray(a)
    v = np.asarray(v)
    if base.dtype != object and has_sym(v):
        raise Unsupported('np.put of symbolic values into a %s buffer' % base.dtype)
    np.put(base, ind, v, mode=mode)


@implements(np.putmask)
def _putmask(a, mask, values):
    """numpy semantics: a.flat[i] = values.flat[i % values.size] where mask.flat[i] -- the values are NOT broadcast, they are
    repeated cyclically over the flattened target; a symbolic mask is merged element by element (no fork)"""
    base = np.asarray(a)
    m = np.broadcast_to(np.asarray(mask, dtype=object), base.shape)
    vals = np.asarray(values, dtype=object).ravel() if not is_sym(values) else np.array([values], dtype=object)
    if base.dtype != object:
        if has_sym(m) or has_sym(vals):
            raise Unsupported('np.putmask of symbolic values / mask into a %s buffer' % base.dtype)
        np.putmask(base, np.asarray(mask), np.asarray(values))
        return
    nv = len(vals)
    for i, idx in enumerate(np.ndindex(base.shape)):
        mk = m[idx]
        v = vals[i % nv]
        if isinstance(mk, SymBool):
            base[idx] = ite(mk, v, base[idx])
        elif bool(mk):
            base[idx] = v


@implements(np.isclose)
def _isclose(a, b, rtol=1e-05, atol=1e-08, equal_nan=False):
    def one(x, y):
        return abs(x - y) <= atol + rtol * abs(y)
    return unwrap0(normalize(_elementwise(one, a, b).view(SymArr)))


@implements(np.allclose)
def _allclose(a, b, rtol=1e-05, atol=1e-08, equal_nan=False):
    r = _isclose(a, b, rtol, atol, equal_nan)
    if isinstance(r, np.ndarray):
        return bool(_tb(_reduce(_obj(r), _REDUCE[np.logical_and][0], True, None, False)))
    return bool(_tb(r))


@implements(np.isnan)
def _isnan(a):
    return unwrap0(normalize(_elementwise(_el_isnan, a).view(SymArr)))


# --------------------------------------------------------------------------
# module-level numpy proxy
# --------------------------------------------------------------------------
def _contains_sym_arg(args, kwargs):
    for a in itertools.chain(args, kwargs.values()):
        if is_sym(a) or isinstance(a, SymArr):
            return True
        if isinstance(a, np.ndarray) and a.dtype == object and has_sym(a):
            return True
        if isinstance(a, (list, tuple)) and _contains_sym_arg(a, {}):
            return True
    return False


def _box(a):
    """symbolic scalars -> 0-d SymArr so numpy dispatches to us"""
    if is_sym(a):
        return scalar_arr(a)
    if isinstance(a, np.ndarray) and a.dtype == object and not isinstance(a, SymArr):
        return a.view(SymArr)
    if isinstance(a, (list, tuple)) and builtins.any(is_sym(x) or isinstance(x, SymArr) for x in a):
        if builtins.all(np.ndim(x) == 0 for x in a):
            o = np.empty(len(a), dtype=object)
            for i, x in enumerate(a):
                o[i] = unwrap0(x) if isinstance(x, np.ndarray) else x
            return o.view(SymArr)
    return a


_ALLOC_FLOAT_KINDS = 'fc'


class NpProxy:
    """Stands in for the module global ``np`` of a traced module."""

    def __init__(self, widen=True):
        self._widen = widen
        self._cache = {}

    def __getattr__(self, name):
        try:
            return self._cache[name]
        except KeyError:
            pass
        real = getattr(np, name)
        if isinstance(real, np.ufunc):
            w = self._wrap_ufunc(real)
        elif callable(real) and not isinstance(real, type):
            w = self._wrap_func(real)
        else:
            w = real
        self._cache[name] = w
        return w

    @staticmethod
    def _wrap_ufunc(uf):
        def call(*args, **kw):
            if _contains_sym_arg(args, kw):
                args = tuple(_box(a) for a in args)
                r = uf(*args, **kw)
                return unwrap0(normalize(r)) if kw.get('out') is None else r
            return uf(*args, **kw)
        call.__name__ = uf.__name__
        for m in ('reduce', 'outer', 'accumulate', 'at'):
            setattr(call, m, getattr(uf, m))
        return call

    @staticmethod
    def _wrap_func(fn):
        def call(*args, **kw):
            if _contains_sym_arg(args, kw):
                if fn in HANDLED:
                    return HANDLED[fn](*args, **kw)
                args = tuple(_box(a) for a in args)
                r = fn(*args, **kw)
                return normalize(_wrap(r))
            return fn(*args, **kw)
        call.__name__ = getattr(fn, '__name__', 'np_func')
        return call

    # ---- allocation: widen float buffers to object so symbols can be stored
    def _alloc(self, fn, shape_or_like, dtype, args, kw):
        d = np.dtype(dtype) if dtype is not None else np.dtype(float)
        if self._widen and d.kind in _ALLOC_FLOAT_KINDS:
            r = fn(shape_or_like, *args, dtype=object, **kw)
            if fn in (np.zeros, np.zeros_like):
                r[...] = 0.0
            elif fn in (np.ones, np.ones_like):
                r[...] = 1.0
            elif fn in (np.empty, np.empty_like):
                r[...] = float('nan') if False else 0.0
            return r.view(SymArr)
        return fn(shape_or_like, *args, dtype=dtype, **kw)

    def zeros(self, shape, dtype=None, *a, **kw):
        return self._alloc(np.zeros, shape, dtype, a, kw)

    def ones(self, shape, dtype=None, *a, **kw):
        return self._alloc(np.ones, shape, dtype, a, kw)

    def empty(self, shape, dtype=None, *a, **kw):
        return self._alloc(np.empty, shape, dtype, a, kw)

    def identity(self, n, dtype=None):
        return np.identity(n, dtype=dtype)

    def full(self, shape, fill_value, dtype=None, **kw):
        if is_sym(fill_value) or (dtype is None and self._widen):
            r = np.empty(shape, dtype=object)
            r[...] = unwrap0(fill_value) if isinstance(fill_value, np.ndarray) else fill_value
            return r.view(SymArr)
        return np.full(shape, fill_value, dtype=dtype, **kw)

    def zeros_like(self, a, dtype=None, **kw):
        src = np.asarray(a) if not is_sym(a) else np.empty((), dtype=object)
        d = np.dtype(dtype) if dtype is not None else (np.dtype(float) if src.dtype == object else src.dtype)
        if d.kind in _ALLOC_FLOAT_KINDS and self._widen:
            r = np.empty(src.shape, dtype=object)
            r[...] = 0.0
            return r.view(SymArr)
        return np.zeros(src.shape, dtype=d)

    def ones_like(self, a, dtype=None, **kw):
        src = np.asarray(a) if not is_sym(a) else np.empty((), dtype=object)
        d = np.dtype(dtype) if dtype is not None else (np.dtype(float) if src.dtype == object else src.dtype)
        if d.kind in _ALLOC_FLOAT_KINDS and self._widen:
            r = np.empty(src.shape, dtype=object)
            r[...] = 1.0
            return r.view(SymArr)
        return np.ones(src.shape, dtype=d)

    @staticmethod
    def _cast_real(r, dtype):
        """numpy casts complex data to a real dtype by discarding the imaginary part (ComplexWarning): same here"""
        if dtype is None or np.dtype(dtype).kind != 'f':
            return r
        if isinstance(r, np.ndarray) and r.dtype == object:
            if builtins.any(isinstance(v, (SymC, complex, np.complexfloating)) for v in r.flat):
                return _elementwise(_el_real, r).view(SymArr)
        return r

    def array(self, obj, dtype=None, **kw):
        if has_sym(obj) or isinstance(obj, SymArr) or _deep_has_sym(obj):
            r = _build_object_array(obj)
            return normalize(self._cast_real(r.view(SymArr), dtype))
        if isinstance(obj, np.ndarray) and obj.dtype == object and dtype is not None and np.dtype(dtype).kind == 'f':
            obj = normalize(obj.view(SymArr))
        return np.array(obj, dtype=dtype, **kw)

    def asarray(self, obj, dtype=None, **kw):
        if isinstance(obj, SymArr):
            if dtype is not None and np.dtype(dtype).kind == 'f':
                if has_sym(obj):
                    return normalize(self._cast_real(obj, dtype))
                obj = normalize(obj)
                if isinstance(obj, SymArr):
                    return obj
                return np.asarray(obj, dtype=dtype, **kw)
            return obj
        if has_sym(obj) or _deep_has_sym(obj):
            return self.array(obj, dtype=dtype)
        return np.asarray(obj, dtype=dtype, **kw)

    def asanyarray(self, obj, dtype=None, **kw):
        return self.asarray(obj, dtype=dtype, **kw)

    def atleast_1d(self, *arys):
        res = []
        for a in arys:
            if is_sym(a):
                res.append(SymArr([a]))
            elif isinstance(a, np.ndarray):
                res.append(a.reshape(1) if a.ndim == 0 else a)
            elif _deep_has_sym(a):
                res.append(self.array(a))
            else:
                res.append(np.atleast_1d(a))
        return res[0] if len(res) == 1 else tuple(res)

    def shape(self, a):
        if is_sym(a):
            return ()
        return np.shape(a)

    def ndim(self, a):
        if is_sym(a):
            return 0
        return np.ndim(a)

    def size(self, a, axis=None):
        if is_sym(a):
            return 1
        return np.size(a, axis)

    def isscalar(self, a):
        return is_sym(a) or np.isscalar(a)

    def ravel(self, a, order='C'):
        if is_sym(a):
            return SymArr([a])
        if _deep_has_sym(a) and not isinstance(a, np.ndarray):
            a = self.array(a)
        return np.ravel(a, order)

    def vstack(self, tup, **kw):
        tup = [self.atleast_1d(t) if (is_sym(t) or not isinstance(t, np.ndarray)) else t for t in tup]
        if builtins.any(isinstance(t, SymArr) for t in tup):
            r = np.vstack([np.asarray(t) if t.dtype == object else np.asarray(t).astype(object) for t in tup])
            return normalize(r.view(SymArr))
        return np.vstack(tup, **kw)

    def hstack(self, tup, **kw):
        tup = [self.atleast_1d(t) if (is_sym(t) or not isinstance(t, np.ndarray)) else t for t in tup]
        if builtins.any(isinstance(t, SymArr) for t in tup):
            r = np.hstack([np.asarray(t) if t.dtype == object else np.asarray(t).astype(object) for t in tup])
            return normalize(r.view(SymArr))
        return np.hstack(tup, **kw)

    def broadcast_arrays(self, *args, **kw):
        args = [scalar_arr(a) if is_sym(a) else (self.array(a) if (_deep_has_sym(a) and not isinstance(a, np.ndarray)) else a)
                for a in args]
        if builtins.any(isinstance(a, SymArr) for a in args):
            r = np.broadcast_arrays(*[np.asarray(a) for a in args], **kw)
            return tuple(x.view(SymArr) if x.dtype == object else x for x in r)
        return np.broadcast_arrays(*args, **kw)

    def iscomplex(self, a):
        if is_sym(a) or isinstance(a, SymArr) or _deep_has_sym(a):
            return _iscomplex(a if not is_sym(a) else scalar_arr(a))
        return np.iscomplex(a)

    def iscomplexobj(self, a):
        if is_sym(a) or isinstance(a, SymArr):
            return _iscomplexobj(a)
        return np.iscomplexobj(a)

    def real(self, a):
        if is_sym(a):
            return a.real if not isinstance(a, SymBool) else a
        return np.real(a)

    def imag(self, a):
        if is_sym(a):
            return a.imag if not isinstance(a, SymBool) else 0.0
        return np.imag(a)

    def result_type(self, *args):
        return _result_type(*args)

    def abs(self, a, **kw):
        if is_sym(a):
            return abs(a)
        return np.abs(a, **kw)

    absolute = abs

    def isnan(self, a, **kw):
        if is_sym(a):
            return _el_isnan(a)
        if isinstance(a, np.ndarray) and a.dtype == object:
            return _isnan(a)
        return np.isnan(a, **kw)

    def any(self, a, axis=None, **kw):
        if isinstance(a, (SymBool,)):
            return a
        if isinstance(a, SymArr) or _deep_has_sym(a):
            return _any(a, axis)
        return np.any(a, axis=axis, **kw)

    def all(self, a, axis=None, **kw):
        if isinstance(a, (SymBool,)):
            return a
        if isinstance(a, SymArr) or _deep_has_sym(a):
            return _all(a, axis)
        return np.all(a, axis=axis, **kw)

    def where(self, c, *ab):
        if is_sym(c) or isinstance(c, SymArr) or _contains_sym_arg(ab, {}):
            r = _where(c, *ab)
            return r
        return np.where(c, *ab)

    def maximum(self, a, b, **kw):
        if _contains_sym_arg((a, b), {}):
            return unwrap0(normalize(_elementwise(smax, a, b).view(SymArr)))
        return np.maximum(a, b, **kw)

    def minimum(self, a, b, **kw):
        if _contains_sym_arg((a, b), {}):
            return unwrap0(normalize(_elementwise(smin, a, b).view(SymArr)))
        return np.minimum(a, b, **kw)

    def sum(self, a, axis=None, **kw):
        if isinstance(a, SymArr) or _deep_has_sym(a):
            return _sum(a if isinstance(a, np.ndarray) else self.array(a), axis)
        return np.sum(a, axis=axis, **kw)

    def outer(self, a, b, out=None):
        if out is not None:
            return np.outer(a, b, out=out)
        r = np.outer(_obj(a) if _deep_has_sym(a) else a, _obj(b) if _deep_has_sym(b) else b)
        if self._widen and r.dtype.kind in 'fc':
            r = r.astype(object)          # the Hessian stencils use this product as their output buffer
        return r.view(SymArr) if r.dtype == object else r

    def dot(self, a, b, **kw):
        if _contains_sym_arg((a, b), {}):
            r = np.dot(_obj(a), _obj(b))
            return unwrap0(normalize(_wrap(r))) if isinstance(r, np.ndarray) else r
        return np.dot(a, b, **kw)


def _deep_has_sym(o, depth=0):
    if is_sym(o) or isinstance(o, SymArr):
        return True
    if isinstance(o, np.ndarray):
        return o.dtype == object and has_sym(o)
    if isinstance(o, (list, tuple)) and depth < 6:
        return builtins.any(_deep_has_sym(x, depth + 1) for x in o)
    return False


def _build_object_array(obj):
    """np.array() semantics for nested sequences holding symbolic scalars / arrays"""
    if isinstance(obj, np.ndarray):
        return np.asarray(obj).astype(object) if obj.dtype != object else np.asarray(obj)
    if is_sym(obj):
        return np.asarray(scalar_arr(obj))
    if isinstance(obj, (list, tuple)):
        parts = [_build_object_array(x) for x in obj]
        shapes = {p.shape for p in parts}
        if len(shapes) != 1:
            raise ValueError('setting an array element with a sequence. The requested array has an '
                             'inhomogeneous shape')
        shp = parts[0].shape
        out = np.empty((len(parts),) + shp, dtype=object)
        for i, p in enumerate(parts):
            if shp == ():
                out[i] = p[()]
            else:
                out[i] = p
        return out
    o = np.empty((), dtype=object)
    o[()] = obj
    return o


# --------------------------------------------------------------------------
# helpers for harnesses
# --------------------------------------------------------------------------
def real_var(name):
    return Sym(z3.Real(name))


def int_var(name):
    return Sym(z3.Int(name))


def real_vars(prefix, shape):
    out = np.empty(shape, dtype=object)
    for idx in np.ndindex(*np.atleast_1d(shape)):
        out[idx] = Sym(z3.Real(prefix + '_' + '_'.join(map(str, idx))))
    return out.view(SymArr)


def term_vars(t):
    """names of the free constants of a z3 term"""
    seen = set()
    out = set()
    stack = [t]
    while stack:
        e = stack.pop()
        i = e.get_id()
        if i in seen:
            continue
        seen.add(i)
        if z3.is_const(e) and e.decl().kind() == z3.Z3_OP_UNINTERPRETED:
            out.add(str(e))
        else:
            stack.extend(e.children())
    return out


def value_vars(v):
    """free constants of any symbolic value / array"""
    out = set()
    if isinstance(v, np.ndarray):
        for e in np.asarray(v).flat:
            out |= value_vars(e)
    elif isinstance(v, Sym):
        out |= term_vars(v.t)
    elif isinstance(v, SymBool):
        out |= term_vars(v.t)
    elif isinstance(v, SymC):
        out |= value_vars(v.re) | value_vars(v.im)
    elif isinstance(v, (list, tuple)):
        for e in v:
            out |= value_vars(e)
    return out


def evaluate(v, assignment):
    """Evaluate a symbolic value at a {name: Fraction} assignment -> Fraction / complex pair /
    nested lists.  Uses z3 substitution + simplify (the solver's own evaluator)."""
    if isinstance(v, np.ndarray):
        out = np.empty(v.shape, dtype=object)
        b = np.asarray(v)
        for idx in np.ndindex(v.shape):
            out[idx] = evaluate(b[idx], assignment)
        return out
    if isinstance(v, SymC):
        return (evaluate(v.re, assignment), evaluate(v.im, assignment))
    if isinstance(v, SymBool):
        t = _subst(v.t, assignment)
        return z3.is_true(t)
    if isinstance(v, Sym):
        t = _subst(v.t, assignment)
        c = _const_value(t)
        if c is None:
            raise Unsupported('term did not evaluate to a numeral: %s' % t)
        return c
    if isinstance(v, (int, float, np.integer, np.floating)):
        return Fraction(float(v)) if not isinstance(v, (int, np.integer)) else Fraction(int(v))
    if isinstance(v, (complex, np.complexfloating)):
        return (Fraction(float(v.real)), Fraction(float(v.imag)))
    if isinstance(v, (list, tuple)):
        return [evaluate(e, assignment) for e in v]
    return v


def _subst(t, assignment):
    subs = []
    for name in term_vars(t):
        if name not in assignment:
            raise Unsupported('no value for %s' % name)
        val = assignment[name]
        c = z3.Real(name)
        # find the sort: try Real then Int
        subs.append((c, ratval(val)))
        subs.append((z3.Int(name), z3.IntVal(int(val)) if Fraction(val).denominator == 1 else z3.IntVal(0)))
    return z3.simplify(z3.substitute(t, *subs))


def model_assignment(model, names):
    out = {}
    for n in names:
        v = model.eval(z3.Real(n), model_completion=True)
        c = _const_value(v)
        if c is None:
            # algebraic number: approximate
            try:
                c = Fraction(v.approx(30).as_fraction())
            except Exception:  # noqa
                c = Fraction(0)
        out[n] = c
    return out


# --------------------------------------------------------------------------
# IEEE floating point scalars (engine E3): every operation rounds with RNE
# --------------------------------------------------------------------------
_RNE = z3.RNE()


class SymFP:
    """IEEE-754 value of a fixed z3 FP sort; numpy object loops drive it elementwise."""
    __slots__ = ('t',)
    __array_ufunc__ = None

    def __init__(self, t):
        self.t = t

    @property
    def sort(self):
        return self.t.sort()

    def _o(self, o):
        if isinstance(o, SymFP):
            return o.t
        if isinstance(o, (bool, np.bool_)):
            return z3.FPVal(float(o), self.sort)
        if isinstance(o, (int, float, np.integer, np.floating)):
            return z3.FPVal(float(o), self.sort)
        if isinstance(o, np.ndarray) and o.ndim == 0 and o.dtype != object:
            return self._o(o[()])
        return None

    def _bin(self, o, f, uf, refl=False):
        if isinstance(o, np.ndarray):
            return _arr_binop(o, self, uf) if refl else _arr_binop(self, o, uf)
        ot = self._o(o)
        if ot is None:
            return NotImplemented
        return SymFP(f(_RNE, ot, self.t) if refl else f(_RNE, self.t, ot))

    def __add__(self, o):
        return self._bin(o, z3.fpAdd, np.add)

    def __radd__(self, o):
        return self._bin(o, z3.fpAdd, np.add, True)

    def __sub__(self, o):
        return self._bin(o, z3.fpSub, np.subtract)

    def __rsub__(self, o):
        return self._bin(o, z3.fpSub, np.subtract, True)

    def __mul__(self, o):
        if isinstance(o, SymBool):
            return SymFP(z3.If(o.t, self.t, z3.FPVal(0.0, self.sort)))
        return self._bin(o, z3.fpMul, np.multiply)

    def __rmul__(self, o):
        if isinstance(o, SymBool):
            return SymFP(z3.If(o.t, self.t, z3.FPVal(0.0, self.sort)))
        return self._bin(o, z3.fpMul, np.multiply, True)

    def __truediv__(self, o):
        return self._bin(o, z3.fpDiv, np.true_divide)

    def __rtruediv__(self, o):
        return self._bin(o, z3.fpDiv, np.true_divide, True)

    def __neg__(self):
        return SymFP(z3.fpNeg(self.t))

    def __pos__(self):
        return self

    def __abs__(self):
        return SymFP(z3.fpAbs(self.t))

    def _cmp(self, o, f, uf):
        if isinstance(o, np.ndarray):
            return _arr_binop(self, o, uf)
        ot = self._o(o)
        if ot is None:
            return NotImplemented
        return SymBool(f(self.t, ot))

    def __lt__(self, o):
        return self._cmp(o, z3.fpLT, np.less)

    def __le__(self, o):
        return self._cmp(o, z3.fpLEQ, np.less_equal)

    def __gt__(self, o):
        return self._cmp(o, z3.fpGT, np.greater)

    def __ge__(self, o):
        return self._cmp(o, z3.fpGEQ, np.greater_equal)

    def __eq__(self, o):
        return self._cmp(o, z3.fpEQ, np.equal)

    def __ne__(self, o):
        return self._cmp(o, z3.fpNEQ, np.not_equal)

    __hash__ = None

    def __float__(self):
        raise Unsupported('symbolic float coerced through float()')

    def __bool__(self):
        return ctx().decide(z3.Not(z3.fpIsZero(self.t)))

    def isnan(self):
        return SymBool(z3.fpIsNaN(self.t))

    def isinf(self):
        return SymBool(z3.fpIsInf(self.t))

    @property
    def real(self):
        return self

    @property
    def imag(self):
        return 0.0

    @property
    def shape(self):
        return ()

    @property
    def ndim(self):
        return 0

    @property
    def size(self):
        return 1

    def __repr__(self):
        return 'SymFP(%s)' % (str(self.t)[:70],)


def fp_var(name, sort):
    return SymFP(z3.FP(name, sort))


def _fp_max(a, b):
    """numpy maximum: NaN propagating"""
    ref = a if isinstance(a, SymFP) else b
    ta, tb = ref._o(a), ref._o(b)
    return SymFP(z3.If(z3.fpIsNaN(ta), ta, z3.If(z3.fpIsNaN(tb), tb, z3.If(z3.fpGEQ(ta, tb), ta, tb))))


def _fp_min(a, b):
    ref = a if isinstance(a, SymFP) else b
    ta, tb = ref._o(a), ref._o(b)
    return SymFP(z3.If(z3.fpIsNaN(ta), ta, z3.If(z3.fpIsNaN(tb), tb, z3.If(z3.fpLEQ(ta, tb), ta, tb))))


# make the generic layers aware of SymFP
_is_sym_base = is_sym


def is_sym(v):  # noqa: F811
    return isinstance(v, (Sym, SymBool, SymC, SymFP))


_ite_base = ite


def ite(c, a, b):  # noqa: F811
    if isinstance(a, SymFP) or isinstance(b, SymFP):
        if isinstance(c, np.ndarray) and c.ndim == 0:
            c = c[()]
        if not isinstance(c, SymBool):
            return a if c else b
        ref = a if isinstance(a, SymFP) else b
        return SymFP(z3.If(c.t, ref._o(a), ref._o(b)))
    return _ite_base(c, a, b)


_smax_base, _smin_base = smax, smin


def smax(a, b):  # noqa: F811
    if isinstance(a, SymFP) or isinstance(b, SymFP):
        return _fp_max(a, b)
    return _smax_base(a, b)


def smin(a, b):  # noqa: F811
    if isinstance(a, SymFP) or isinstance(b, SymFP):
        return _fp_min(a, b)
    return _smin_base(a, b)


_BINARY[np.maximum] = smax
_BINARY[np.minimum] = smin
_BINARY[np.fmax] = smax
_BINARY[np.fmin] = smin
_el_isnan_base = _el_isnan


def _el_isnan(v):  # noqa: F811
    if isinstance(v, SymFP):
        return v.isnan()
    return _el_isnan_base(v)


_UNARY[np.isnan] = _el_isnan
_UNARY[np.isinf] = lambda v: v.isinf() if isinstance(v, SymFP) else (False if is_sym(v) else bool(np.isinf(v)))
_UNARY[np.isfinite] = lambda v: SymBool(z3.And(z3.Not(z3.fpIsNaN(v.t)), z3.Not(z3.fpIsInf(v.t)))) if isinstance(v, SymFP) \
    else (True if is_sym(v) else bool(np.isfinite(v)))


def pow_uf_name(k):
    return 'pow_' + repr(float(k)).replace('.', 'p').replace('-', 'm')


# --------------------------------------------------------------------------
# rational functions as numerator/denominator polynomial pairs
# --------------------------------------------------------------------------
def _som(t):
    return z3.simplify(t, som=True)


_ONE = z3.RealVal(1)


class SymQ:
    """num/den pair of polynomial z3 terms (kept expanded with simplify(som=True)).
    z3's nlsat does not cope with deeply nested quotients; identities between SymQ values are
    discharged cross-multiplied under the side conditions den != 0 (recorded in NONZERO)."""
    __slots__ = ('n', 'd')
    __array_ufunc__ = None
    NONZERO = []      # denominators introduced by divisions (terms assumed/proved non-zero by the harness)
    ABS_SEEN = []     # arguments of abs() comparisons that were resolved by assumption
    ABS_THRESHOLDS = []   # the constants those absolute values were compared with

    def __init__(self, n, d=None):
        self.n = n
        self.d = _ONE if d is None else d

    @staticmethod
    def of(v):
        if isinstance(v, SymQ):
            return v
        if isinstance(v, Sym):
            return SymQ(v.t)
        if isinstance(v, np.ndarray) and v.ndim == 0:
            return SymQ.of(v[()])
        return SymQ(ratval(v))

    def _const_den(self):
        return _const_value(self.d)

    def __add__(self, o):
        if isinstance(o, np.ndarray):
            return _arr_binop(self, o, np.add)
        o = SymQ.of(o)
        if z3.eq(self.d, o.d):
            return SymQ(_som(self.n + o.n), self.d)
        return SymQ(_som(self.n * o.d + o.n * self.d), _som(self.d * o.d))

    def __radd__(self, o):
        if isinstance(o, np.ndarray):
            return _arr_binop(o, self, np.add)
        return self.__add__(o)

    def __neg__(self):
        return SymQ(_som(-self.n), self.d)

    def __sub__(self, o):
        if isinstance(o, np.ndarray):
            return _arr_binop(self, o, np.subtract)
        return self + (-SymQ.of(o))

    def __rsub__(self, o):
        if isinstance(o, np.ndarray):
            return _arr_binop(o, self, np.subtract)
        return SymQ.of(o) - self

    def __mul__(self, o):
        if isinstance(o, np.ndarray):
            return _arr_binop(self, o, np.multiply)
        o = SymQ.of(o)
        return SymQ(_som(self.n * o.n), _som(self.d * o.d))

    def __rmul__(self, o):
        if isinstance(o, np.ndarray):
            return _arr_binop(o, self, np.multiply)
        return self.__mul__(o)

    def __truediv__(self, o):
        if isinstance(o, np.ndarray):
            return _arr_binop(self, o, np.true_divide)
        o = SymQ.of(o)
        c = _const_value(o.n)
        if c is not None:
            if c == 0:
                raise Unsupported('division by constant zero')
            return SymQ(_som(self.n * o.d * ratval(1 / c)), self.d)
        SymQ.NONZERO.append(o.n)
        return SymQ(_som(self.n * o.d), _som(self.d * o.n))

    def __rtruediv__(self, o):
        if isinstance(o, np.ndarray):
            return _arr_binop(o, self, np.true_divide)
        return SymQ.of(o).__truediv__(self)

    def __pow__(self, k):
        k = int(k)
        if k < 0:
            return SymQ(_ONE) / (self ** (-k))
        return SymQ(_som(_pow_term(self.n, k)), _som(_pow_term(self.d, k)))

    def __abs__(self):
        return _AbsQ(self)

    def eq_term(self, o):
        """z3 Bool: self == o, cross-multiplied (valid where denominators are non-zero)"""
        o = SymQ.of(o)
        return _som(self.n * o.d - o.n * self.d) == 0

    def term(self):
        return self.n / self.d if _const_value(self.d) != 1 else self.n

    def _sign_diff(self, o):
        """term with the sign of (self - o): (n1 d2 - n2 d1) * (d1 d2)   (valid where the denominators are non-zero)"""
        o = SymQ.of(o)
        return _som((self.n * o.d - o.n * self.d) * (self.d * o.d))

    def __lt__(self, o):
        if isinstance(o, np.ndarray):
            return NotImplemented
        return SymBool(self._sign_diff(o) < 0)

    def __le__(self, o):
        if isinstance(o, np.ndarray):
            return NotImplemented
        return SymBool(self._sign_diff(o) <= 0)

    def __gt__(self, o):
        if isinstance(o, np.ndarray):
            return NotImplemented
        return SymBool(self._sign_diff(o) > 0)

    def __ge__(self, o):
        if isinstance(o, np.ndarray):
            return NotImplemented
        return SymBool(self._sign_diff(o) >= 0)

    __hash__ = None

    def __float__(self):
        raise Unsupported('SymQ coerced to float')

    @property
    def shape(self):
        return ()

    @property
    def ndim(self):
        return 0

    @property
    def size(self):
        return 1

    def __repr__(self):
        return 'SymQ(%s / %s)' % (str(self.n)[:40], str(self.d)[:40])


class _AbsTol:
    """an opaque non-constant tolerance built from absolute values of table entries (c * |q|, max(|q1|, |q2|), ...): comparing
    a table difference with it is NOT the documented absolute 1e-60 test; the harness records an infinite threshold"""
    __array_ufunc__ = None

    def __mul__(self, o):
        return self
    __rmul__ = __mul__

    def __float__(self):
        raise Unsupported('data-dependent tolerance has no constant value')

    def __gt__(self, o):
        return True

    def __ge__(self, o):
        return True

    def __lt__(self, o):
        return False

    def __le__(self, o):
        return False


class _AbsQ:
    """|q| that only supports the 'is it tiny' test of EpsAlg: the harness assumes the
    non-degenerate branch (no table difference vanishes) and records the assumption."""
    __array_ufunc__ = None

    def __init__(self, q):
        self.q = q

    def _sq_diff(self, o):
        # |a| ? |b|  <=>  a^2 ? b^2 : (n1 d2)^2 - (n2 d1)^2
        a, b = self.q, o.q
        return _som((a.n * b.d) * (a.n * b.d) - (b.n * a.d) * (b.n * a.d))

    def __mul__(self, o):
        return _AbsTol()
    __rmul__ = __mul__

    def _note(self, o):
        SymQ.ABS_SEEN.append(self.q)
        try:
            SymQ.ABS_THRESHOLDS.append(float(o))
        except Exception:  # noqa
            SymQ.ABS_THRESHOLDS.append(float('inf'))

    def __le__(self, o):
        if isinstance(o, _AbsQ):
            return SymBool(self._sq_diff(o) <= 0)
        self._note(o)
        return False

    def __array_function__(self, *a, **k):     # pragma: no cover
        return NotImplemented

    def __lt__(self, o):
        if isinstance(o, _AbsQ):
            return SymBool(self._sq_diff(o) < 0)
        self._note(o)
        return False

    def __gt__(self, o):
        if isinstance(o, _AbsQ):
            return SymBool(self._sq_diff(o) > 0)
        self._note(o)
        return True

    def __ge__(self, o):
        if isinstance(o, _AbsQ):
            return SymBool(self._sq_diff(o) >= 0)
        self._note(o)
        return True


_is_sym_prev = is_sym


def is_sym(v):  # noqa: F811
    return isinstance(v, (Sym, SymBool, SymC, SymFP, SymQ))


def const(v):
    """a concrete rational as an (exact) symbolic constant: arithmetic on it stays exact"""
    return Sym(ratval(v))
