"""CrossHair (engine E2) runner for numpy-free integer/string logic of the library.

Spec files under vf/xh/ hold functions with PEP-316 contracts that call the REAL
classes with symbolic ints.  ``run_spec`` runs ``crosshair check --report_all`` on
one spec file and returns a verdict per function:

  confirmed    "Confirmed over all paths"            (all inputs, no bound on n / order)
  refuted      a counterexample was found           (returned with its arguments)
  unknown      "Not confirmed" / "Unable to meet precondition" / timeout  -> inconclusive

Functions whose name starts with ``twin_`` are reachability twins: they carry the
negated postcondition and MUST come back refuted.
"""
from __future__ import annotations

import ast
import os
import re
import subprocess
import sys
import time

HERE = os.path.dirname(os.path.abspath(__file__))
_ARGNAMES = {}


def _functions(path):
    with open(path) as f:
        tree = ast.parse(f.read())
    out = []
    for node in tree.body:
        if isinstance(node, ast.FunctionDef):
            doc = ast.get_docstring(node) or ''
            if 'post:' in doc:
                out.append((node.name, node.lineno, node.end_lineno))
                _ARGNAMES[node.name] = [a.arg for a in node.args.args]
    return out


def run_spec(spec, per_condition_timeout=60, total_timeout=900):
    path = os.path.join(HERE, 'xh', spec)
    funcs = _functions(path)
    cmd = [sys.executable, '-m', 'crosshair', 'check', '--report_all',
           '--per_condition_timeout', str(per_condition_timeout), path]
    env = dict(os.environ)
    env['PYTHONPATH'] = os.environ.get('VERIF_REPO_SRC', '/repo/src') + os.pathsep + os.path.dirname(HERE) + os.pathsep + env.get('PYTHONPATH', '')
    t0 = time.time()
    try:
        pr = subprocess.run(cmd, capture_output=True, text=True, timeout=total_timeout, env=env)
        out = pr.stdout + pr.stderr
    except subprocess.TimeoutExpired as e:
        out = (e.stdout or '') + (e.stderr or '') if isinstance(e.stdout, str) else ''
        out += '\nTIMEOUT'
    wall = time.time() - t0
    verdicts = {name: {'verdict': 'unknown', 'detail': 'no report line'} for name, _a, _b in funcs}
    for line in out.splitlines():
        m = re.match(r'^(.*?):(\d+): (info|error): (.*)$', line)
        if not m:
            continue
        ln = int(m.group(2))
        msg = m.group(4)
        name = None
        for fn, a, b in funcs:
            if a <= ln <= b:
                name = fn
        if name is None:
            continue
        if m.group(3) == 'info' and msg.startswith('Confirmed over all paths'):
            verdicts[name] = {'verdict': 'confirmed', 'detail': msg}
        elif m.group(3) == 'error':
            verdicts[name] = {'verdict': 'refuted', 'detail': msg, 'args': _parse_args(msg)}
        else:
            verdicts[name] = {'verdict': 'unknown', 'detail': msg}
    return verdicts, wall, out


def _parse_args(msg):
    m = re.search(r'when calling (\w+)\((.*?)\)', msg)
    if not m:
        return {}
    names = _ARGNAMES.get(m.group(1), [])
    args = {}
    for i, part in enumerate(m.group(2).split(',')):
        part = part.strip()
        if not part:
            continue
        if '=' in part:
            k, v = part.split('=', 1)
            k, v = k.strip(), v.strip()
        else:
            k, v = (names[i] if i < len(names) else 'arg%d' % i), part
        try:
            args[k] = int(v)
            continue
        except ValueError:
            pass
        if v.strip() in ('True', 'False'):
            args[k] = v.strip() == 'True'
            continue
        try:
            args[k] = float(v)
        except ValueError:
            args[k] = v.strip('\'"')
    return args


def absorb(job, spec, key_prefix, per_condition_timeout=60):
    """run a spec file and book the verdicts into a core.Job"""
    verdicts, wall, raw = run_spec(spec, per_condition_timeout)
    job.solver_s += wall
    for name, v in sorted(verdicts.items()):
        if name.startswith('twin_'):
            if v['verdict'] == 'refuted':
                job.twins_ok += 1
            else:
                job.twins_bad += 1
                job.error('CrossHair reachability twin %s/%s was not refuted (%s): preconditions may be vacuous'
                          % (spec, name, v['detail']))
            continue
        job.n_obl += 1
        job.n_nontrivial += 1
        job.queries += 1
        if len(job.samples) < 3:
            job.samples.append({'job': job.name, 'obligation': '%s:%s' % (spec, name), 'verdict': v['verdict'],
                                'solve_s': round(wall, 2), 'engine': 'crosshair'})
        if v['verdict'] == 'confirmed':
            job.n_discharged += 1
        elif v['verdict'] == 'refuted':
            job.cex.append({'key': '%s:%s' % (key_prefix, name), 'kind': 'crosshair', 'spec': spec, 'function': name,
                            'args': v.get('args', {}), 'obligation': name, 'job': job.name, 'config': job.config,
                            'model': {}, 'message': v['detail']})
        else:
            job.n_inconclusive += 1
            job.error('CrossHair inconclusive for %s/%s: %s' % (spec, name, v['detail']))
    return verdicts


def replay_crosshair(cex):
    """call the spec function on the counterexample arguments in plain Python (real library)"""
    import importlib.util
    path = os.path.join(HERE, 'xh', cex['spec'])
    spec = importlib.util.spec_from_file_location('xh_spec', path)
    mod = importlib.util.module_from_spec(spec)
    spec.loader.exec_module(mod)
    fn = getattr(mod, cex['function'])
    try:
        r = fn(**cex['args'])
    except Exception as e:  # noqa
        return True, '%s(%s) raises %s: %s' % (cex['function'], cex['args'], type(e).__name__, e)
    if r is False:
        return True, '%s(%s) is False on the real library' % (cex['function'], cex['args'])
    return False, '%s(%s) holds' % (cex['function'], cex['args'])
