"""CrossHair contracts over the REAL LogRule / MinStepGenerator configuration logic
(all n >= 1, order >= 1: no upper bound).  Each function returns the truth of the claim."""
import sys
sys.path.insert(0, __import__('os').environ.get('VERIF_REPO_SRC', '/repo/src'))
from numdifftools.finite_difference import LogRule  # noqa: E402
from numdifftools.step_generators import MinStepGenerator, _STATE  # noqa: E402

METHODS = ['central', 'forward', 'backward', 'complex', 'multicomplex']
# documented meaning of the parity classes of LogRule._fd_matrix: (spacing, first power)
PARITY_DOC = [(1, 1), (2, 1), (2, 2), (4, 2), (4, 4), (4, 1), (4, 3)]
READS_FX = ('_central_even', '_forward', '_backward', '_complex_even_higher')


def parity_selects_nth_derivative(n: int, order: int, mi: int) -> bool:
    """
    pre: 1 <= n
    pre: 1 <= order
    pre: 0 <= mi < 4
    post: _
    """
    rule = LogRule(n=n, method=METHODS[mi], order=order)
    mo = rule.method_order
    step = rule.richardson_step
    parity = rule._parity(METHODS[mi], n - 1, mo)
    if not 0 <= parity <= 6:
        return False
    stp, off = PARITY_DOC[parity]
    # spacing of the modelled powers == Richardson spacing; the row picked by rule() is the n-th derivative
    return stp == step and stp * ((n - 1) // step) + off == n


def method_order_is_rounded_order(n: int, order: int, mi: int) -> bool:
    """
    pre: 1 <= n
    pre: 1 <= order
    pre: 0 <= mi < 5
    post: _
    """
    rule = LogRule(n=n, method=METHODS[mi], order=order)
    mo = rule.method_order
    step = rule.richardson_step
    # a positive multiple of the Richardson spacing; at least the requested order whenever the request is a
    # multiple of the spacing (other requests are documented to be rounded down to one)
    if mo % step != 0 or mo < step:
        return False
    if order % step == 0 and mo < order:
        return False
    return mo > order - step


def richardson_step_table(n: int, order: int, mi: int) -> bool:
    """
    pre: 1 <= n
    pre: 1 <= order
    pre: 0 <= mi < 5
    post: _
    """
    rule = LogRule(n=n, method=METHODS[mi], order=order)
    step = rule.richardson_step
    if mi in (1, 2):
        return step == 1
    if mi in (0, 4):
        return step == 2
    # complex: 2 for the plain first-derivative rule, 4 otherwise
    return step == (4 if (n > 1 or order >= 4) else 2)


def rule_row_exists(n: int, order: int, mi: int) -> bool:
    """
    pre: 1 <= n
    pre: 1 <= order
    pre: 0 <= mi < 4
    post: _
    """
    rule = LogRule(n=n, method=METHODS[mi], order=order)
    step = rule.richardson_step
    num_terms = (n - 1 + rule.method_order) // step
    rule_index = (n - 1) // step
    # the removed powers: omitted exponent - n == method_order, i.e. exactly num_terms - rule_index - 1 ... powers above n
    first_removed = n - step * rule_index + step * num_terms
    return 0 <= rule_index < num_terms and first_removed - n >= rule.method_order and first_removed - n < rule.method_order + step


def eval_first_when_fx_is_read(n: int, order: int, mi: int) -> bool:
    """
    pre: 1 <= n
    pre: 1 <= order
    pre: 0 <= mi < 4
    post: _
    """
    rule = LogRule(n=n, method=METHODS[mi], order=order)
    name = rule.diff.__name__
    if name in READS_FX:
        return bool(rule.eval_first_condition)
    return True


def complex_configuration_is_8_periodic(n: int, order: int) -> bool:
    """
    pre: 2 <= n
    pre: 1 <= order
    post: _
    """
    a = LogRule(n=n, method='complex', order=order)
    b = LogRule(n=n + 8, method='complex', order=order)
    return (a.diff.__name__ == b.diff.__name__ and bool(a._flip_fd_rule) == bool(b._flip_fd_rule)
            and a._parity('complex', n - 1, a.method_order) == b._parity('complex', n + 7, b.method_order)
            and a.richardson_step == b.richardson_step and a.method_order == b.method_order
            and bool(a.eval_first_condition) == bool(b.eval_first_condition))


def real_configuration_is_2_periodic(n: int, order: int, mi: int) -> bool:
    """
    pre: 1 <= n
    pre: 1 <= order
    pre: 0 <= mi < 3
    post: _
    """
    a = LogRule(n=n, method=METHODS[mi], order=order)
    b = LogRule(n=n + 2, method=METHODS[mi], order=order)
    return (a.diff.__name__ == b.diff.__name__ and bool(a._flip_fd_rule) == bool(b._flip_fd_rule)
            and a._parity(METHODS[mi], n - 1, a.method_order) == b._parity(METHODS[mi], n + 1, b.method_order)
            and a.richardson_step == b.richardson_step and a.method_order == b.method_order
            and bool(a.eval_first_condition) == bool(b.eval_first_condition))


def default_step_count_covers_rule(n: int, order: int, mi: int) -> bool:
    """
    pre: 1 <= n
    pre: 1 <= order
    pre: 0 <= mi < 4
    post: _
    """
    method = METHODS[mi]
    rule = LogRule(n=n, method=method, order=order)
    mo = rule.method_order
    step = rule.richardson_step
    num_terms = (n - 1 + mo) // step
    gen = MinStepGenerator()
    gen._state = _STATE(None, method, n, mo)
    # Derivative passes method_order as `order` to the generator; the rule consumes num_terms steps
    return gen.min_num_steps >= num_terms and gen.num_steps >= num_terms


def twin_parity_reachable(n: int, order: int, mi: int) -> bool:
    """
    pre: 1 <= n
    pre: 1 <= order
    pre: 0 <= mi < 4
    post: not _
    """
    rule = LogRule(n=n, method=METHODS[mi], order=order)
    mo = rule.method_order
    parity = rule._parity(METHODS[mi], n - 1, mo)
    return parity == 6 and mo >= 8


def twin_needle(n: int, order: int, mi: int) -> bool:
    """
    pre: 1 <= n
    pre: 1 <= order
    pre: 0 <= mi < 4
    post: _
    """
    # a planted wrong claim at one deep point: must be refuted (shows the search reaches large n / order)
    rule = LogRule(n=n, method=METHODS[mi], order=order)
    return not (n == 77 and order == 5 and mi == 3 and rule.richardson_step == 4)
