"""CrossHair contracts: integer / string misuse guards of the REAL classes raise ValueError (never return)."""
import sys
sys.path.insert(0, __import__('os').environ.get('VERIF_REPO_SRC', '/repo/src'))
from numdifftools.finite_difference import LogRule  # noqa: E402
from numdifftools.limits import Residue, CStepGenerator  # noqa: E402


def multicomplex_above_two_raises(n: int, order: int) -> bool:
    """
    pre: 3 <= n
    pre: 1 <= order
    post: _
    """
    try:
        LogRule(n=n, method='multicomplex', order=order).diff
    except ValueError:
        return True
    return False


def multicomplex_above_two_raises_after_setters(n0: int, n: int, order: int, via_method: bool) -> bool:
    """
    pre: 1 <= n0 <= 2
    pre: 3 <= n
    pre: 1 <= order
    post: _
    """
    # the configuration is reached through the public attributes after construction (n raised, or the method switched)
    if via_method:
        rule = LogRule(n=n, method='central', order=order)
        rule.method = 'multicomplex'
    else:
        rule = LogRule(n=n0, method='multicomplex', order=order)
        rule.n = n
    try:
        rule.diff
    except ValueError:
        return True
    return False


def multicomplex_up_to_two_is_accepted(n: int, order: int) -> bool:
    """
    pre: 1 <= n <= 2
    pre: 1 <= order
    post: _
    """
    return LogRule(n=n, method='multicomplex', order=order).diff.__name__ in ('_multicomplex', '_multicomplex2')


def residue_order_guard(order: int, pole_order: int) -> bool:
    """
    pre: 1 <= pole_order
    pre: 0 <= order
    post: _
    """
    try:
        Residue(lambda z: z, order=order, pole_order=pole_order)
    except ValueError:
        return order <= pole_order
    return order > pole_order


def cstep_path_guard(path: str) -> bool:
    """
    pre: len(path) <= 7
    post: _
    """
    try:
        CStepGenerator(path=path)
    except ValueError:
        return path not in ('radial', 'spiral')
    except IndexError:
        return False
    return path in ('radial', 'spiral')


def twin_guard_reachable(n: int, order: int) -> bool:
    """
    pre: 3 <= n
    pre: 1 <= order
    post: not _
    """
    return n == 41 and order == 13
