"""CrossHair contracts over the REAL MinStepGenerator counting logic (all integers, unbounded)."""
import sys
sys.path.insert(0, __import__('os').environ.get('VERIF_REPO_SRC', '/repo/src'))
from numdifftools.finite_difference import LogRule  # noqa: E402
from numdifftools.step_generators import MinStepGenerator, MaxStepGenerator, _STATE  # noqa: E402

METHODS = ['central', 'forward', 'backward', 'complex', 'multicomplex']


def min_num_steps_formula(n: int, order: int, mi: int) -> bool:
    """
    pre: 1 <= n
    pre: 1 <= order
    pre: 0 <= mi < 5
    post: _
    """
    gen = MinStepGenerator()
    gen._state = _STATE(None, METHODS[mi], n, order)
    div = 1
    if mi in (0, 4):
        div = 2
    if mi == 3:
        div = 4 if (n > 1 or order >= 4) else 2
    want = (n + order - 1) // div
    if want < 1:
        want = 1
    return gen.min_num_steps == want


def num_steps_logic(n: int, order: int, mi: int, given: int, extrap: int, check: bool) -> bool:
    """
    pre: 1 <= n
    pre: 1 <= order
    pre: 0 <= mi < 5
    pre: 0 <= given
    pre: 0 <= extrap
    post: _
    """
    gen = MinStepGenerator(num_steps=given, num_extrap=extrap, check_num_steps=check)
    gen._state = _STATE(None, METHODS[mi], n, order)
    mn = gen.min_num_steps
    got = gen.num_steps
    if check:
        ok = got == (given if given >= mn else mn)
    else:
        ok = got == given
    gen2 = MinStepGenerator(num_steps=None, num_extrap=extrap, check_num_steps=check)
    gen2._state = _STATE(None, METHODS[mi], n, order)
    return ok and gen2.num_steps == mn + extrap


def default_counts_cover_rule(n: int, order: int, mi: int) -> bool:
    """
    pre: 1 <= n
    pre: 1 <= order
    pre: 0 <= mi < 4
    post: _
    """
    method = METHODS[mi]
    rule = LogRule(n=n, method=method, order=order)
    mo = rule.method_order
    num_terms = (n - 1 + mo) // rule.richardson_step
    g1 = MinStepGenerator()
    g1._state = _STATE(None, method, n, mo)
    g2 = MaxStepGenerator()
    g2._state = _STATE(None, method, n, mo)
    g3 = MinStepGenerator(num_steps=1)          # an explicit but too small request is raised to the minimum
    g3._state = _STATE(None, method, n, mo)
    return g1.num_steps >= num_terms and g2.num_steps >= num_terms and g3.num_steps >= num_terms


def default_ratio(n: int) -> bool:
    """
    pre: 1 <= n
    post: _
    """
    g = MinStepGenerator()
    g._state = _STATE(None, 'central', n, 2)
    return g.step_ratio == (2.0 if n == 1 else 1.6)


def twin_counts_reachable(n: int, order: int, mi: int) -> bool:
    """
    pre: 1 <= n
    pre: 1 <= order
    pre: 0 <= mi < 4
    post: not _
    """
    gen = MinStepGenerator()
    gen._state = _STATE(None, METHODS[mi], n, order)
    return gen.min_num_steps == 9 and mi == 3
