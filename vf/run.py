"""CLI: python -m vf.run <ID> [--tier quick|thorough] [--replay path] [--nproc N]"""
import argparse
import importlib
import os
import sys
import warnings


def main():
    ap = argparse.ArgumentParser()
    ap.add_argument('prop')
    ap.add_argument('--tier', default=os.environ.get('VERIF_TIER', 'quick'), choices=['quick', 'thorough'])
    ap.add_argument('--replay', default=None)
    ap.add_argument('--nproc', type=int, default=None)
    a = ap.parse_args()
    warnings.simplefilter('ignore')
    os.environ.setdefault('NUMDIFFTOOLS_VERIF', '1')
    os.environ['VERIF_TIER'] = a.tier
    seed = int(os.environ.get('VERIF_SEED', '0') or 0)
    from vf import core
    mod = importlib.import_module('vf.props.%s' % a.prop.lower())
    if a.replay:
        sys.exit(core.replay_file(mod, a.replay))
    sys.exit(core.drive(mod, a.tier, seed, nproc=a.nproc))


if __name__ == '__main__':
    main()
