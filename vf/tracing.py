"""Installing the symbolic numpy into the real numdifftools modules.

``traced()`` is a context manager: inside it the module globals ``np`` (and the
C kernel ``convolve1d``) of the numdifftools modules are rebound to the symbolic
stand-ins; outside it the library is untouched (replays and trace validation run
against the untouched library).
"""
from __future__ import annotations

import contextlib
import importlib
import os
import sys

import numpy as np

from . import symnum as sn

# VERIF_REPO_SRC: development aid only (seeded changes are tried in a scratch worktree while /repo is busy); the
# registered commands never set it, so they always read /repo's current working tree
REPO_SRC = os.environ.get('VERIF_REPO_SRC', '/repo/src')
if REPO_SRC not in sys.path:
    sys.path.insert(0, REPO_SRC)

TRACED_MODULES = ['numdifftools.extrapolation', 'numdifftools.step_generators',
                  'numdifftools.multicomplex', 'numdifftools.finite_difference',
                  'numdifftools.limits', 'numdifftools.core', 'numdifftools.fornberg']


def mods():
    return {name: importlib.import_module(name) for name in TRACED_MODULES}


# --------------------------------------------------------------------------
# reference for scipy.ndimage.convolve1d(mode='reflect') on object arrays
# --------------------------------------------------------------------------
def _reflect(i, n):
    # scipy 'reflect': (d c b a | a b c d | d c b a)
    if n == 1:
        return 0
    period = 2 * n
    i = i % period
    if i < 0:
        i += period
    return i if i < n else period - 1 - i


def _conj(w):
    out = np.empty(len(w), dtype=object)
    for i, v in enumerate(w):
        out[i] = v.conjugate() if hasattr(v, 'conjugate') else v
    return out


def convolve1d_ref(seq, weights, axis=0, origin=0, **kw):
    """scipy.ndimage.convolve1d = correlate1d with the reversed weights and the mirrored origin (complex weights are
    pre-conjugated there to cancel the conjugation inside correlate1d)"""
    w = np.asarray(weights)[::-1]
    origin = -origin
    if not len(w) & 1:
        origin -= 1
    return correlate1d_ref(seq, w, axis=axis, origin=origin, _conjugate=False, **kw)


def correlate1d_ref(seq, weights, axis=0, origin=0, _conjugate=True, **kw):
    """reference for scipy.ndimage.correlate1d(mode='reflect'); complex weights are conjugated, as scipy does"""
    if kw.get('mode', 'reflect') != 'reflect' or axis != 0:
        raise sn.Unsupported('correlate1d reference only models axis=0, mode=reflect')
    w = np.asarray(weights)
    if _conjugate and (w.dtype.kind == 'c' or (w.dtype == object and any(isinstance(v, (complex, sn.SymC)) for v in w))):
        w = _conj(w) if w.dtype == object else w.conj()
    size = len(w)
    size1 = size // 2
    if not (-(size // 2) <= origin <= (size - 1) // 2):
        raise ValueError('invalid origin')
    seq = np.asarray(seq)
    n = seq.shape[0]
    out = np.empty(seq.shape, dtype=object)
    for i in range(n):
        acc = None
        for j in range(size):
            term = seq[_reflect(i + j - size1 - origin, n)] * w[j]
            acc = term if acc is None else acc + term
        out[i] = acc
    return out


def _kernel_stub(which):
    ref = convolve1d_ref if which == 'convolve1d' else correlate1d_ref

    def stub(input, weights, axis=-1, output=None, mode='reflect', cval=0.0, origin=0):
        seq = input if isinstance(input, np.ndarray) else np.asarray(input)
        if not sn.has_sym(seq) and not sn.has_sym(np.asarray(weights)):
            import scipy.ndimage as _ndi
            return getattr(_ndi, which)(input, weights, axis=axis, output=output, mode=mode, cval=cval, origin=origin)
        if output is not None:
            raise sn.Unsupported('%s reference: output= not modelled' % which)
        ax = axis if axis >= 0 else seq.ndim + axis
        if ax != 0:
            moved = np.moveaxis(np.asarray(seq), ax, 0)
            r = ref(moved, weights, axis=0, origin=origin, mode=mode)
            r = np.moveaxis(r, 0, ax)
        else:
            r = ref(seq, weights, axis=0, origin=origin, mode=mode)
        return sn.normalize(r.view(sn.SymArr))
    stub.__name__ = which + '_stub'
    return stub


# stand-ins for the scipy.ndimage C kernels only: the library's own ``convolve`` wrapper, which splits complex data and
# forwards axis / origin, is real repo code and runs unchanged on top of these
convolve1d_stub = _kernel_stub('convolve1d')
correlate1d_stub = _kernel_stub('correlate1d')


_REAL_CONVOLVE1D = [None]


def validate_convolve_stub(seed=0):
    """Differential run of the reference against the real C kernel (all rows,
    including the reflected boundary rows).  Returns number of comparisons."""
    from scipy.ndimage import convolve1d as real, correlate1d as real_corr
    rng = np.random.default_rng(seed)
    n_cmp = 0
    for k in range(1, 10):
        for n in range(1, 18):
            for cols in (1, 2):
                seq = rng.normal(size=(n, cols))
                rule = rng.normal(size=k)
                n_r = k - 1
                for origin in sorted({n_r // 2, 0, -(k // 2) if k > 1 else 0}):
                    a = real(seq, rule[::-1], axis=0, origin=origin)
                    b = convolve1d_ref(seq.astype(object), rule[::-1], axis=0, origin=origin)
                    b = np.asarray(b, dtype=float)
                    if not np.allclose(a, b, rtol=1e-12, atol=1e-12):
                        raise RuntimeError('convolve1d reference disagrees with scipy at k=%d n=%d origin=%d' % (k, n, origin))
                    n_cmp += 1
                    # the sibling kernel, with complex weights (scipy conjugates them in correlate1d, not in convolve1d)
                    crule = rule + 1j * rng.normal(size=k)
                    if abs(origin) <= (k - 1) // 2 and -(k // 2) <= origin:
                        for fn, ref in ((real_corr, correlate1d_ref), (real, convolve1d_ref)):
                            try:
                                a = fn(seq, crule, axis=0, origin=origin)
                            except ValueError:
                                continue
                            b = np.asarray(ref(seq.astype(object), crule, axis=0, origin=origin), dtype=complex)
                            if not np.allclose(a, b, rtol=1e-12, atol=1e-12):
                                raise RuntimeError('%s reference disagrees with scipy at k=%d n=%d origin=%d (complex weights)'
                                                   % (ref.__name__, k, n, origin))
                            n_cmp += 1
    return n_cmp


class LinalgProxy:
    """pinv/norm only ever see concrete data; object arrays of floats are converted back."""

    def __init__(self, real):
        self._real = real

    def __getattr__(self, name):
        f = getattr(self._real, name)
        if not callable(f):
            return f

        def call(*args, **kw):
            conv = []
            for a in args:
                if isinstance(a, np.ndarray) and a.dtype == object:
                    a = sn.normalize(a)
                    if isinstance(a, sn.SymArr):
                        raise sn.Unsupported('linalg.%s on a symbolic matrix' % name)
                conv.append(a)
            return f(*conv, **kw)
        return call


@contextlib.contextmanager
def traced(widen=True, merge_max=True, extra=None):
    """Rebind ``np``/``convolve``/``linalg``/``max`` in the numdifftools modules."""
    m = mods()
    saved = []

    def setg(mod, name, val):
        saved.append((mod, name, mod.__dict__.get(name, _MISSING)))
        mod.__dict__[name] = val

    ex = m['numdifftools.extrapolation']
    fd = m['numdifftools.finite_difference']
    if _REAL_CONVOLVE1D[0] is None:
        from scipy.ndimage import convolve1d as _c1d
        _REAL_CONVOLVE1D[0] = _c1d
    proxy = sn.NpProxy(widen=widen)
    try:
        for mod in m.values():
            setg(mod, 'np', proxy)
            if merge_max:
                setg(mod, 'max', sn.sym_max)
                setg(mod, 'min', sn.sym_min)
        for mod in m.values():
            # whichever of the two scipy kernels a module has imported
            for kname, kstub in (('convolve1d', convolve1d_stub), ('correlate1d', correlate1d_stub)):
                if kname in mod.__dict__:
                    setg(mod, kname, kstub)
        setg(ex, 'linalg', LinalgProxy(ex.linalg))
        setg(fd, 'linalg', LinalgProxy(fd.linalg))
        for (mod, name, val) in (extra or []):
            setg(mod, name, val)
        yield m
    finally:
        for mod, name, old in reversed(saved):
            if old is _MISSING:
                mod.__dict__.pop(name, None)
            else:
                mod.__dict__[name] = old


_MISSING = object()


def source_hashes():
    import hashlib
    import os
    out = {}
    base = os.path.join(REPO_SRC, 'numdifftools')
    for fn in ('core.py', 'finite_difference.py', 'extrapolation.py', 'limits.py',
               'step_generators.py', 'multicomplex.py', 'fornberg.py'):
        with open(os.path.join(base, fn), 'rb') as f:
            out[fn] = hashlib.sha256(f.read()).hexdigest()[:16]
    return out
