"""Installing the symbolic numpy into the real numdifftools modules.

``traced()`` is a context manager: inside it the module globals ``np`` (and the
C kernel ``convolve1d``) of the numdifftools modules are rebound to the symbolic
stand-ins; outside it the library is untouched (replays and trace validation run
against the untouched library).
"""
from __future__ import annotations

import contextlib
import importlib
import os
import sys

import numpy as np

from . import symnum as sn

# VERIF_REPO_SRC: development aid only (seeded changes are tried in a scratch worktree while /repo is busy); the
# registered commands never set it, so they always read /repo's current working tree
REPO_SRC = os.environ.get('VERIF_REPO_SRC', '/repo/src')
if REPO_SRC not in sys.path:
    sys.path.insert(0, REPO_SRC)

TRACED_MODULES = ['numdifftools.extrapolation', 'numdifftools.step_generators',
                  'numdifftools.multicomplex', 'numdifftools.finite_difference',
                  'numdifftools.limits', 'numdifftools.core', 'numdifftools.fornberg']


def mods():
    return {name: importlib.import_module(name) for name in TRACED_MODULES}


# --------------------------------------------------------------------------
# reference for scipy.ndimage.convolve1d(mode='reflect') on object arrays
# --------------------------------------------------------------------------
def _reflect(i, n):
    # scipy 'reflect': (d c b a | a b c d | d c b a)
    if n == 1:
        return 0
    period = 2 * n
    i = i % period
    if i < 0:
        i += period
    return i if i < n else period - 1 - i


def convolve1d_ref(seq, weights, axis=0, origin=0, **kw):
    if kw.get('mode', 'reflect') != 'reflect' or axis != 0:
        raise sn.Unsupported('convolve1d reference only models axis=0, mode=reflect')
    w = np.asarray(weights)[::-1]
    origin = -origin
    size = len(w)
    if not size & 1:
        origin -= 1
    size1 = size // 2
    if not (-(size // 2) <= origin <= (size - 1) // 2):
        raise ValueError('invalid origin')
    seq = np.asarray(seq)
    n = seq.shape[0]
    out = np.empty(seq.shape, dtype=object)
    for i in range(n):
        acc = None
        for j in range(size):
            term = seq[_reflect(i + j - size1 - origin, n)] * w[j]
            acc = term if acc is None else acc + term
        out[i] = acc
    return out


def convolve1d_stub(input, weights, axis=-1, output=None, mode='reflect', cval=0.0, origin=0):
    """stand-in for scipy.ndimage.convolve1d (the C kernel only): the library's own ``convolve`` wrapper, which splits
    complex data and forwards axis / origin, is real repo code and runs unchanged on top of this."""
    seq = input if isinstance(input, np.ndarray) else np.asarray(input)
    if not sn.has_sym(seq) and not sn.has_sym(np.asarray(weights)):
        return _REAL_CONVOLVE1D[0](input, weights, axis=axis, output=output, mode=mode, cval=cval, origin=origin)
    if output is not None:
        raise sn.Unsupported('convolve1d reference: output= not modelled')
    ax = axis if axis >= 0 else seq.ndim + axis
    if ax != 0:
        moved = np.moveaxis(np.asarray(seq), ax, 0)
        r = convolve1d_ref(moved, weights, axis=0, origin=origin, mode=mode)
        r = np.moveaxis(r, 0, ax)
    else:
        r = convolve1d_ref(seq, weights, axis=0, origin=origin, mode=mode)
    return sn.normalize(r.view(sn.SymArr))


_REAL_CONVOLVE1D = [None]


def validate_convolve_stub(seed=0):
    """Differential run of the reference against the real C kernel (all rows,
    including the reflected boundary rows).  Returns number of comparisons."""
    from scipy.ndimage import convolve1d as real
    rng = np.random.default_rng(seed)
    n_cmp = 0
    for k in range(1, 10):
        for n in range(1, 18):
            for cols in (1, 2):
                seq = rng.normal(size=(n, cols))
                rule = rng.normal(size=k)
                n_r = k - 1
                for origin in sorted({n_r // 2, 0, -(k // 2) if k > 1 else 0}):
                    a = real(seq, rule[::-1], axis=0, origin=origin)
                    b = convolve1d_ref(seq.astype(object), rule[::-1], axis=0, origin=origin)
                    b = np.asarray(b, dtype=float)
                    if not np.allclose(a, b, rtol=1e-12, atol=1e-12):
                        raise RuntimeError('convolve1d reference disagrees with scipy at k=%d n=%d origin=%d' % (k, n, origin))
                    n_cmp += 1
    return n_cmp


class LinalgProxy:
    """pinv/norm only ever see concrete data; object arrays of floats are converted back."""

    def __init__(self, real):
        self._real = real

    def __getattr__(self, name):
        f = getattr(self._real, name)
        if not callable(f):
            return f

        def call(*args, **kw):
            conv = []
            for a in args:
                if isinstance(a, np.ndarray) and a.dtype == object:
                    a = sn.normalize(a)
                    if isinstance(a, sn.SymArr):
                        raise sn.Unsupported('linalg.%s on a symbolic matrix' % name)
                conv.append(a)
            return f(*conv, **kw)
        return call


@contextlib.contextmanager
def traced(widen=True, merge_max=True, extra=None):
    """Rebind ``np``/``convolve``/``linalg``/``max`` in the numdifftools modules."""
    m = mods()
    saved = []

    def setg(mod, name, val):
        saved.append((mod, name, mod.__dict__.get(name, _MISSING)))
        mod.__dict__[name] = val

    ex = m['numdifftools.extrapolation']
    fd = m['numdifftools.finite_difference']
    if _REAL_CONVOLVE1D[0] is None:
        from scipy.ndimage import convolve1d as _c1d
        _REAL_CONVOLVE1D[0] = _c1d
    proxy = sn.NpProxy(widen=widen)
    try:
        for mod in m.values():
            setg(mod, 'np', proxy)
            if merge_max:
                setg(mod, 'max', sn.sym_max)
                setg(mod, 'min', sn.sym_min)
        setg(ex, 'convolve1d', convolve1d_stub)
        setg(ex, 'linalg', LinalgProxy(ex.linalg))
        setg(fd, 'linalg', LinalgProxy(fd.linalg))
        for (mod, name, val) in (extra or []):
            setg(mod, name, val)
        yield m
    finally:
        for mod, name, old in reversed(saved):
            if old is _MISSING:
                mod.__dict__.pop(name, None)
            else:
                mod.__dict__[name] = old


_MISSING = object()


def source_hashes():
    import hashlib
    import os
    out = {}
    base = os.path.join(REPO_SRC, 'numdifftools')
    for fn in ('core.py', 'finite_difference.py', 'extrapolation.py', 'limits.py',
               'step_generators.py', 'multicomplex.py', 'fornberg.py'):
        with open(os.path.join(base, fn), 'rb') as f:
            out[fn] = hashlib.sha256(f.read()).hexdigest()[:16]
    return out
