import sys; sys.path.insert(0,'/tmp/probe')
import numpy as np, z3, sym
from sym import var, S, SB
sym.CTX=sym.Ctx()
a=np.array([var('a0'),var('a1')],dtype=object)
r = a < 1.0
print(type(r), r.dtype, r)
r2 = np.less(a, 1.0, dtype=object)
print(r2.dtype, r2)
m = (a<1.0)|(a>2.0)
print(m.dtype, m)
print(np.abs(a))
print(np.maximum(a, 0.5))
