import numpy as np, z3
from fractions import Fraction
def lift(v):
    if isinstance(v,S): return v.t
    if isinstance(v,(bool,np.bool_)): raise TypeError
    if isinstance(v,(int,np.integer)): return z3.RealVal(int(v))
    if isinstance(v,(float,np.floating)): return z3.RealVal(str(Fraction(float(v))))
    raise TypeError(type(v))
class SB:
    def __init__(s,t): s.t=t
    def __bool__(s): raise RuntimeError('fork needed')
    def __or__(s,o): return SB(z3.Or(s.t, lb(o)))
    __ror__=__or__
    def __and__(s,o): return SB(z3.And(s.t, lb(o)))
    __rand__=__and__
    def __invert__(s): return SB(z3.Not(s.t))
def lb(o): return o.t if isinstance(o,SB) else z3.BoolVal(bool(o))
class S:
    def __init__(s,t): s.t=t
    def _b(s,o,f): return NotImplemented if isinstance(o,np.ndarray) else S(f(s.t,lift(o)))
    def _r(s,o,f): return NotImplemented if isinstance(o,np.ndarray) else S(f(lift(o),s.t))
    __add__=lambda s,o:s._b(o,lambda a,b:a+b); __radd__=lambda s,o:s._r(o,lambda a,b:a+b)
    __sub__=lambda s,o:s._b(o,lambda a,b:a-b); __rsub__=lambda s,o:s._r(o,lambda a,b:a-b)
    __mul__=lambda s,o:s._b(o,lambda a,b:a*b); __rmul__=lambda s,o:s._r(o,lambda a,b:a*b)
    __truediv__=lambda s,o:s._b(o,lambda a,b:a/b); __rtruediv__=lambda s,o:s._r(o,lambda a,b:a/b)
    __neg__=lambda s:S(-s.t)
    __abs__=lambda s:S(z3.If(s.t>=0,s.t,-s.t))
    __lt__=lambda s,o:SB(s.t<lift(o)); __le__=lambda s,o:SB(s.t<=lift(o))
    __gt__=lambda s,o:SB(s.t>lift(o)); __ge__=lambda s,o:SB(s.t>=lift(o))
    __hash__=None
    def __repr__(s): return 'S(%s)'%z3.simplify(s.t)
CMP={np.less,np.less_equal,np.greater,np.greater_equal,np.equal,np.not_equal}
HANDLED={}
def implements(f):
    def d(g): HANDLED[f]=g; return g
    return d
def ite(c,a,b):
    if isinstance(c,SB): return S(z3.If(c.t,lift(a),lift(b)))
    return a if c else b
class SA(np.ndarray):
    def __new__(cls,a): return np.asarray(a,dtype=object).view(cls)
    def __array_ufunc__(self,uf,method,*ins,out=None,**kw):
        ins=[np.asarray(i,dtype=object) if isinstance(i,np.ndarray) else i for i in ins]
        if out is not None: out=tuple(np.asarray(o) if isinstance(o,SA) else o for o in out); kw['out']=out
        if uf in CMP or uf in (np.bitwise_or,np.bitwise_and,np.logical_or): kw['dtype']=object
        if uf is np.maximum:
            r=np.frompyfunc(lambda a,b: ite(a>=b,a,b),2,1)(*ins)
        elif uf is np.isnan:
            r=np.frompyfunc(lambda a: SB(z3.BoolVal(False)),1,1)(*ins)
        else:
            r=getattr(uf,method)(*ins,**kw)
        if isinstance(r,np.ndarray) and out is None: return r.view(SA) if r.dtype==object else r
        return r
    def __array_function__(self,func,types,args,kwargs):
        if func in HANDLED: return HANDLED[func](*args,**kwargs)
        def strip(a):
            if isinstance(a,SA): return np.asarray(a)
            if isinstance(a,(list,tuple)): return type(a)(strip(x) for x in a)
            return a
        r=func(*strip(args),**{k:strip(v) for k,v in kwargs.items()})
        def wrap(r):
            if isinstance(r,np.ndarray) and r.dtype==object: return r.view(SA)
            if isinstance(r,(list,tuple)): return type(r)(wrap(x) for x in r)
            return r
        return wrap(r)
    def __setitem__(self,key,val):
        if isinstance(key,np.ndarray) and key.dtype==object and key.size and isinstance(key.flat[0],SB):
            base=np.asarray(self); k=np.broadcast_to(np.asarray(key),base.shape); v=np.broadcast_to(np.asarray(val,dtype=object),base.shape)
            for idx in np.ndindex(base.shape): base[idx]=ite(k[idx],v[idx],base[idx])
            return
        np.ndarray.__setitem__(self,key,val)
@implements(np.where)
def _where(c,a,b):
    c,a,b=np.broadcast_arrays(np.asarray(c,dtype=object),np.asarray(a,dtype=object),np.asarray(b,dtype=object))
    out=np.empty(c.shape,dtype=object)
    for idx in np.ndindex(c.shape): out[idx]=ite(c[idx],a[idx],b[idx])
    return out.view(SA)
