"""quick prototype of Sym proxies over z3 Reals"""
import z3, numpy as np
class Fork(BaseException): pass
class Ctx:
    def __init__(self): self.prefix=[]; self.pos=0; self.pc=[]; self.solver=z3.Solver()
CTX=None
class SB:
    def __init__(self,t): self.t=t
    def __bool__(self):
        c=CTX
        if c.pos < len(c.prefix):
            d=c.prefix[c.pos]
        else:
            d=True; c.prefix.append(d)
        c.pos+=1
        c.pc.append(self.t if d else z3.Not(self.t))
        return d
    def __or__(s,o): return SB(z3.Or(s.t, o.t if isinstance(o,SB) else bool(o)))
    def __and__(s,o): return SB(z3.And(s.t, o.t if isinstance(o,SB) else bool(o)))
    def __invert__(s): return SB(z3.Not(s.t))
def lift(v):
    if isinstance(v,S): return v.t
    if isinstance(v,(int,float,np.integer,np.floating)):
        from fractions import Fraction
        f=Fraction(float(v)) if not isinstance(v,(int,np.integer)) else Fraction(int(v))
        return z3.RealVal(str(f))
    raise TypeError(type(v))
class S:
    pass
    def __init__(self,t): self.t=t
    def _b(self,o,f):
        if isinstance(o,np.ndarray): return NotImplemented
        if isinstance(o,(complex,np.complexfloating)): return NotImplemented
        return S(f(self.t,lift(o)))
    def _rb(self,o,f):
        if isinstance(o,np.ndarray): return NotImplemented
        return S(f(lift(o),self.t))
    def __add__(s,o): return s._b(o,lambda a,b:a+b)
    def __radd__(s,o): return s._rb(o,lambda a,b:a+b)
    def __sub__(s,o): return s._b(o,lambda a,b:a-b)
    def __rsub__(s,o): return s._rb(o,lambda a,b:a-b)
    def __mul__(s,o): return s._b(o,lambda a,b:a*b)
    def __rmul__(s,o): return s._rb(o,lambda a,b:a*b)
    def __truediv__(s,o): return s._b(o,lambda a,b:a/b)
    def __rtruediv__(s,o): return s._rb(o,lambda a,b:a/b)
    def __neg__(s): return S(-s.t)
    def __abs__(s): return S(z3.If(s.t>=0,s.t,-s.t))
    def __pow__(s,o):
        if isinstance(o,np.ndarray): return NotImplemented
        o=int(o); 
        if o<0: return S(1/ (z3.RealVal(1)* z3.Product([s.t]*(-o)))) if o!=0 else S(z3.RealVal(1))
        if o==0: return S(z3.RealVal(1))
        return S(z3.Product([s.t]*o) if o>1 else s.t)
    def __lt__(s,o): return SB(s.t<lift(o))
    def __le__(s,o): return SB(s.t<=lift(o))
    def __gt__(s,o): return SB(s.t>lift(o))
    def __ge__(s,o): return SB(s.t>=lift(o))
    def __eq__(s,o): return SB(s.t==lift(o))
    def __ne__(s,o): return SB(s.t!=lift(o))
    __hash__=None
    def __repr__(s): return 'S(%s)'%s.t
def var(n): return S(z3.Real(n))
def explore(fn, maxpaths=10000):
    """re-execution based path exploration"""
    global CTX
    import sym
    results=[]; stack=[[]]
    while stack:
        prefix=stack.pop()
        c=Ctx(); c.prefix=list(prefix); sym.CTX=c
        out=fn()
        # check feasibility
        s=z3.Solver(); s.add(*c.pc)
        feasible = s.check()
        # schedule alternatives for new decisions
        for i in range(len(prefix), len(c.prefix)):
            alt=c.prefix[:i]+[False]
            stack.append(alt)
        if str(feasible)=='sat': results.append((c.pc,out))
        assert len(results)<maxpaths
    return results
