import sys
sys.path.insert(0, '/repo/src')
from numdifftools.finite_difference import LogRule
from numdifftools.step_generators import MinStepGenerator, _STATE
METHODS = ['central', 'forward', 'backward', 'complex', 'multicomplex']
def twin(n: int, order: int, mi: int) -> bool:
    """
    pre: 1 <= n
    pre: 1 <= order
    pre: 0 <= mi < 4
    post: not _
    """
    method = METHODS[mi]
    rule = LogRule(n=n, method=method, order=order)
    mo = rule.method_order
    step = rule.richardson_step
    num_terms = (n - 1 + mo) // step
    gen = MinStepGenerator()
    gen._state = _STATE(None, method, n, mo)
    return gen.min_num_steps >= num_terms and mo % step == 0 and mo >= step
def unb(n: int, order: int, mi: int) -> bool:
    """
    pre: 1 <= n
    pre: 1 <= order
    pre: 0 <= mi < 4
    post: _
    """
    method = METHODS[mi]
    rule = LogRule(n=n, method=method, order=order)
    mo = rule.method_order
    step = rule.richardson_step
    num_terms = (n - 1 + mo) // step
    gen = MinStepGenerator()
    gen._state = _STATE(None, method, n, mo)
    return gen.min_num_steps >= num_terms + (1 if n == 77 and order == 5 and mi == 3 else 0)
