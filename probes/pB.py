import sys, time; sys.path.insert(0,'/repo/src'); sys.path.insert(0,'/tmp/probe')
import numpy as np, z3, math
from fractions import Fraction
from numdifftools.extrapolation import EpsAlg
ONE=z3.RealVal(1); ZERO=z3.RealVal(0)
SIMP=lambda t: z3.simplify(t, som=True)
class B:
    def __init__(s,v): s.v=v
    def __bool__(s): return s.v
def L(v):
    if isinstance(v,Q): return v
    if isinstance(v,(int,np.integer)): return Q(z3.RealVal(int(v)),ONE)
    if isinstance(v,(float,np.floating)): return Q(z3.RealVal(str(Fraction(float(v)))),ONE)
    raise TypeError(type(v))
class Q:
    def __init__(s,n,d): s.n=SIMP(n); s.d=SIMP(d)
    def __add__(s,o):
        o=L(o)
        if z3.eq(s.d,o.d): return Q(s.n+o.n,s.d)
        return Q(s.n*o.d+o.n*s.d, s.d*o.d)
    __radd__=__add__
    def __neg__(s): return Q(-s.n,s.d)
    def __sub__(s,o): return s+(-L(o))
    def __rsub__(s,o): return L(o)-s
    def __mul__(s,o): o=L(o); return Q(s.n*o.n, s.d*o.d)
    __rmul__=__mul__
    def __truediv__(s,o): o=L(o); return Q(s.n*o.d, s.d*o.n)
    def __rtruediv__(s,o): return L(o)/s
    def __abs__(s): return A(s)
class A:  # abs value placeholder: comparisons `<= 1e-60` take the 'nonzero difference' path (assumed)
    def __init__(s,q): s.q=q
    def __le__(s,o): NZ.append(s.q); return False
NZ=[]
def P(t,e):
    r=ONE
    for _ in range(e): r=r*t
    return r
k=int(sys.argv[1])
Lv=z3.Real('L'); a=[z3.Real('a%d'%i) for i in range(k)]; q=[z3.Real('q%d'%i) for i in range(k)]
t0=time.time()
e=EpsAlg()
for n in range(2*k+1):
    s=Lv
    for i in range(k): s=s+a[i]*P(q[i],n)
    out=e(Q(s,ONE))
print('exec %.1fs'%(time.time()-t0), len(NZ))
t=time.time()
diff=SIMP(out.n - Lv*out.d)
print('diff simp %.1fs'%(time.time()-t), str(diff)[:100])
s=z3.Solver(); s.set('timeout',60000); s.add(diff!=0); print(s.check())
