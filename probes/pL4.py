import sys,time; sys.path.insert(0,'/repo/src'); sys.path.insert(0,'/tmp/probe')
import numpy as np, z3, warnings
import symarr
from symarr import SA,S,SB,lift,implements,ite,lb
from numdifftools.limits import _Limit
# ---- fork explorer -------------------------------------------------
class Ctx: pass
CTX=Ctx(); CTX.prefix=[]; CTX.pos=0; CTX.pc=[]
def decide(term):
    t=z3.simplify(term)
    if z3.is_true(t): return True
    if z3.is_false(t): return False
    c=CTX
    if c.pos<len(c.prefix): d=c.prefix[c.pos]
    else: d=True; c.prefix.append(d)
    c.pos+=1; c.pc.append(t if d else z3.Not(t)); return d
SB.__bool__=lambda s: decide(s.t)
SB.__add__=SB.__or__; SB.__radd__=SB.__or__
def sb_mul(s,o):
    if isinstance(o,SB): return SB(z3.And(s.t,o.t))
    if isinstance(o,(bool,np.bool_)): return SB(z3.And(s.t,z3.BoolVal(bool(o))))
    if isinstance(o,np.ndarray): return NotImplemented
    return S(z3.If(s.t,lift(o),z3.RealVal(0)))
SB.__mul__=sb_mul; SB.__rmul__=sb_mul
_oldb=S._b
def s_mul(s,o):
    if isinstance(o,SB): return S(z3.If(o.t,s.t,z3.RealVal(0)))
    return s._b(o,lambda a,b:a*b)
S.__mul__=s_mul
S.__rmul__=lambda s,o: s_mul(s,o) if isinstance(o,SB) else s._r(o,lambda a,b:a*b)
S.__eq__=lambda s,o: SB(s.t==lift(o))
def explore(fn,maxp=5000):
    out=[]; stack=[[]]; n=0
    while stack:
        pre=stack.pop(); CTX.prefix=list(pre); CTX.pos=0; CTX.pc=[]
        sol=z3.Solver()
        try: r=fn()
        except Exception as e: r=e
        for i in range(len(pre),len(CTX.prefix)): stack.append(CTX.prefix[:i]+[False])
        sol.add(*CTX.pc)
        if str(sol.check())=='sat': out.append((list(CTX.pc),r))
        n+=1; assert n<maxp
    return out,n
# ---- intercepts ----------------------------------------------------
@implements(np.any)
def _any(a,axis=None,**k):
    a=np.asarray(a); return SB(z3.Or(*[lb(v) for v in a.ravel()]))
def smin(a,b): return ite(a<=b,a,b)
def smax(a,b): return ite(a<=b,b,a)
@implements(np.percentile)
def _pct(a,q,axis=None,**k):
    a=np.asarray(a); assert axis==0
    kk,c=a.shape; res=np.empty((len(q),c),dtype=object)
    for j in range(c):
        col=list(a[:,j])
        for i in range(kk):            # bubble sorting network
            for t in range(kk-1-i):
                lo,hi=smin(col[t],col[t+1]),smax(col[t],col[t+1]); col[t],col[t+1]=lo,hi
        for qi,qq in enumerate(q):
            v=qq/100*(kk-1); f=int(np.floor(v)); g=v-f
            res[qi,j]=col[f] if g==0 else col[f]+(col[f+1]-col[f])*g
    return res.view(SA)
@implements(np.nanmin)
def _nanmin(a,axis=None):
    a=np.asarray(a); out=[]
    for j in range(a.shape[1]):
        m=a[0,j]
        for i in range(1,a.shape[0]): m=smin(m,a[i,j])
        out.append(m)
    return SA(out)
@implements(np.nanargmin)
def _nanargmin(a,axis=None):
    a=np.asarray(a); out=[]
    for j in range(a.shape[1]):
        best=0
        for i in range(1,a.shape[0]):
            if a[i,j]<a[best,j]: best=i      # forks
        out.append(best)
    return np.array(out)
@implements(np.flatnonzero)
def _fnz(a):
    a=np.asarray(a); return np.array([i for i,v in enumerate(a.ravel()) if (bool(v))],dtype=int)
# ---- harness -------------------------------------------------------
K,C=int(sys.argv[1]),int(sys.argv[2])
def R(n): return z3.Real(n)
def harness():
    der=SA([[S(R('d%d_%d'%(i,j))) for j in range(C)] for i in range(K)])
    err=SA([[S(R('e%d_%d'%(i,j))) for j in range(C)] for i in range(K)])
    steps=np.array([[0.5**i]*C for i in range(K)])
    with warnings.catch_warnings():
        warnings.simplefilter('ignore')
        val,info=_Limit._get_best_estimate(der,err,steps,(C,))
    return val,info
t=time.time(); paths,n=explore(harness); print('paths feasible',len(paths),'runs',n,'%.1fs'%(time.time()-t))
exc=[r for pc,r in paths if isinstance(r,Exception)]
print('exceptions',len(exc), exc[:1])
# obligations: value/err/final_step from a common row; err>=input err; noninterference col0
bad=0; tq=time.time()
for pc,(val,info) in paths:
    s=z3.Solver(); s.add(*pc); s.add(*[R('e%d_%d'%(i,j))>=0 for i in range(K) for j in range(C)])
    for c in range(C):
        v=lift(val[c]); e=lift(info.error_estimate[c]); fs=info.final_step[c]
        rows=[z3.And(v==R('d%d_%d'%(i,c)), e>=R('e%d_%d'%(i,c)), float(fs)==0.5**i) for i in range(K)]
        s.push(); s.add(z3.Not(z3.Or(*rows)))
        if str(s.check())!='unsat': bad+=1
        s.pop()
    vs={str(x) for x in z3.z3util.get_vars(lift(val[0]))}|{str(x) for x in z3.z3util.get_vars(lift(info.error_estimate[0]))}
    if any(not x.endswith('_0') for x in vs): bad+=1
print('violations',bad,'%.1fs'%(time.time()-tq))
