import sys,time; sys.path.insert(0,'/repo/src'); sys.path.insert(0,'/tmp/probe')
import numpy as np, z3
from symarr import SA,S,SB
from numdifftools.extrapolation import dea3, _TINY, _EPS
from fractions import Fraction
L,a,q=z3.Reals('L a q')
e=[SA([S(L+a*(q**k if k else 1))]) for k in range(3)]
e=[SA([S(L+a)]),SA([S(L+a*q)]),SA([S(L+a*q*q)])]
res,err=dea3(*e)
r=res[0].t; ab=err[0].t
# extract the converged condition by re-deriving: property restricted to inputs where code takes the Shanks branch:
T=z3.RealVal(str(Fraction(_TINY)))
A=lambda t: z3.If(t>=0,t,-t)
# guard-free region: |a(q-1)| and |a q (q-1)| not tiny relative & |sss*e1|>1e-4 ; we state it via result != e2 (Shanks branch taken)
s=z3.Solver(); s.set('timeout',120000)
s.add(a!=0, q!=0, q!=1)
s.add(A(L)<=1e15, A(a)<=1e15, A(a)>=1e-15, A(q)<=50, A(q)>=z3.RealVal('1/50'), A(q-1)>=z3.RealVal('1/50'))
s.add(r != L+a*q*q)   # Shanks branch (not the converged fallback)
s.add(A(r-L) > z3.RealVal('1/1000000000000000000000000000000')*(A(L)+A(a)))
t=time.time(); print('recover L:',s.check(),'%.1fs'%(time.time()-t))
s=z3.Solver(); s.set('timeout',120000)
s.add(a!=0, q!=0, q!=1)
s.add(A(L)<=1e15, A(a)<=1e15, A(a)>=1e-15, A(q)<=50, A(q)>=z3.RealVal('1/50'), A(q-1)>=z3.RealVal('1/50'))
s.add(r != L+a*q*q)
s.add(ab < A(r-L))
t=time.time(); print('abserr honest:',s.check(),'%.1fs'%(time.time()-t))
