import sys,time,math; sys.path.insert(0,'/repo/src'); sys.path.insert(0,'/tmp/probe')
import numpy as np, z3
from fractions import Fraction
import symarr
from symarr import SA,S,SB,lift
import numdifftools as nd
import numdifftools.finite_difference as fdm, numdifftools.extrapolation as ex
# reference convolve (mode='reflect' irrelevant for the retained rows) -- stub for the C kernel
def convolve_ref(sequence, rule, axis=0, origin=0, **kw):
    seq=np.asarray(sequence,dtype=object); n=seq.shape[0]; k=len(rule)
    out=np.empty(seq.shape,dtype=object)
    # scipy convolve1d: out[i] = sum_j seq[i + (k//2) + origin... ] ; numdifftools passes rule[::-1], origin=n_r//2 => out[i]=sum_j fd_rule[j]*seq[i+j] for valid rows
    w=rule[::-1]
    for i in range(n):
        acc=0
        for j in range(k):
            idx=i+j
            if idx>=n: idx=2*n-1-idx  # reflect
            acc=acc+float(w[j])*seq[idx]
        out[i]=acc
    return out.view(SA)
# validate stub against real convolve on concrete data
rng=np.random.default_rng(0)
for k in (1,2,3,4):
    seq=rng.normal(size=(7,2)); rule=rng.normal(size=k); n_r=k-1
    a=ex.convolve(seq,rule[::-1],axis=0,origin=n_r//2); b=np.asarray(convolve_ref(seq,rule[::-1],axis=0,origin=n_r//2),dtype=float)
    m=7-n_r
    assert np.allclose(a[:m],b[:m]),(k,a,b)
fdm.convolve=convolve_ref
def run(method,n,order,x0,deg):
    a=[z3.Real('a%d'%p) for p in range(deg+1)]
    evals=[]
    def f(x):
        evals.append(x)
        acc=0
        for p in range(deg,-1,-1): acc=acc*x+S(a[p])   # horner with symbolic coeffs
        return acc
    d=nd.Derivative(f,n=n,method=method,order=order)
    x_i=np.asarray(x0)
    (der,h,shape),fx=d._derivative_nonzero_order(x_i,(),{})
    exact=sum(z3.RealVal(math.perm(p,n))*a[p]*z3.RealVal(str(Fraction(x0)**(p-n))) for p in range(n,deg+1))
    s=z3.Solver()
    box=[z3.And(c>=-1,c<=1) for c in a]
    s.add(*box)
    tol=z3.RealVal('1/1000000000')
    bad=[]
    for r in np.asarray(der).ravel():
        t=lift(r) if isinstance(r,S) else z3.RealVal(str(Fraction(float(r))))
        bad.append(z3.Or(t-exact>tol, exact-t>tol))
    s.add(z3.Or(*bad))
    t0=time.time(); res=s.check()
    print(method,n,order,'deg',deg,'rows',len(bad),'evals',len(evals),res,'%.2fs'%(time.time()-t0))
    if str(res)=='sat': print(s.model())
for method in ('central','forward','backward'):
    for n in (1,2,3):
        for order in (2,4):
            mo=nd.Derivative(lambda x:x,n=n,method=method,order=order).method_order
            run(method,n,order,0.5,n+mo-1)
run('central',2,2,0.5,4)  # degree too high -> expect sat
