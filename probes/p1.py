import sys; sys.path.insert(0,'/repo/src'); sys.path.insert(0,'/tmp/probe')
import numpy as np, z3, sym
from sym import var, S, explore
from numdifftools.finite_difference import DifferenceFunctions as DF, JacobianDifferenceFunctions as JDF, HessianDifferenceFunctions as HDF, HessdiagDifferenceFunctions as HD, LogRule
sym.CTX=sym.Ctx()
calls=[]
cnt=[0]
def fv(x):
    calls.append(x); cnt[0]+=1
    return var('f%d'%cnt[0])
xv=np.array([var('x0'),var('x1')],dtype=object); hv=np.array([0.5,0.25])
def T(name, fn):
    calls.clear()
    try:
        r=fn(); print(name, 'OK', np.shape(r), len(calls), calls[:2])
    except Exception as e:
        import traceback; print(name,'FAIL'); traceback.print_exc()
T('jac central', lambda: JDF._central(fv,0.0,xv,hv))
T('hess central_even', lambda: HDF._central_even(fv,np.array(var('fx'),dtype=object),xv,hv))
T('hess forward', lambda: HDF._forward(fv,np.array(var('fx'),dtype=object),xv,hv))
T('hess backward', lambda: HDF._backward(fv,np.array(var('fx'),dtype=object),xv,hv))
T('hess central2', lambda: HDF._central2(fv,np.array(var('fx'),dtype=object),xv,hv))
T('hessdiag central2', lambda: HD._central2(fv,np.array(var('fx'),dtype=object),xv,hv))
T('fdmat', lambda: LogRule._fd_matrix(var('r'),1,3))
M=LogRule._fd_matrix(var('r'),5,3); print(z3.simplify(M[2,2].t), M[0,0], M[0,1])
from numdifftools.extrapolation import Richardson, dea3, EpsAlg, Dea
T('rmat', lambda: Richardson._r_matrix(var('r'),2,2,2))
from numdifftools.fornberg import _fd_weights_all
def fw():
    m,n=4,2
    w=np.zeros((m,n+1),dtype=object)
    x=np.array([var('x%d'%i) for i in range(m)],dtype=object)
    _fd_weights_all(w,x,var('x0_'),n)
    return w
T('fdw', fw)
def ea():
    e=EpsAlg()
    return [e(var('s%d'%i)) for i in range(3)]
try:
    res=explore(ea)
    print('epsalg paths',len(res)); print(res[0][1][-1], res[0][0])
except Exception as e:
    import traceback; traceback.print_exc()
def d3():
    return dea3(var('e0'),var('e1'),var('e2'))
try:
    res=explore(d3)
    print('dea3 paths',len(res)); 
    for pc,out in res[:3]: print(pc, out)
except Exception as e:
    import traceback; traceback.print_exc()
