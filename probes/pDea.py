import faulthandler; faulthandler.dump_traceback_later(800, exit=True)
import sys,time; sys.path.insert(0,'/repo/src'); sys.path.insert(0,'/tmp/probe')
import numpy as np, z3
import symarr
from symarr import S,SB,lift
from numdifftools.extrapolation import Dea
class Ctx: pass
CTX=Ctx()
NQ=[0]; UNK=[0]
def decide(term):
    t=z3.simplify(term)
    if z3.is_true(t): return True
    if z3.is_false(t): return False
    c=CTX
    if c.pos<len(c.prefix):
        d=c.prefix[c.pos]; c.pos+=1; c.sol.add(t if d else z3.Not(t)); return d
    # new decision: eager feasibility of both sides
    NQ[0]+=2
    c.sol.push(); c.sol.add(t); r1=str(c.sol.check()); ft=r1!='unsat'; c.sol.pop()
    c.sol.push(); c.sol.add(z3.Not(t)); r2=str(c.sol.check()); ff=r2!='unsat'; c.sol.pop()
    UNK[0]+= (r1=='unknown')+(r2=='unknown')
    if ft and ff:
        c.todo.append(c.prefix[:c.pos]+[False]); d=True
    elif ft: d=True
    else: d=False
    c.prefix.append(d); c.pos+=1; c.sol.add(t if d else z3.Not(t)); return d
SB.__bool__=lambda s: decide(s.t)

RECIP=z3.Function('recip',z3.RealSort(),z3.RealSort()); MUL=z3.Function('mul',z3.RealSort(),z3.RealSort(),z3.RealSort())
def isnum(t): return z3.is_rational_value(z3.simplify(t))
def s_rdiv(s,o): return S(lift(o)*RECIP(s.t))
def s_div(s,o):
    o=lift(o); return S(s.t/o) if isnum(o) else S(MUL(s.t,RECIP(o)))
def s_mul(s,o):
    o=lift(o)
    if isnum(o) or isnum(s.t): return S(s.t*o)
    return S(MUL(s.t,o))
S.__rtruediv__=s_rdiv; S.__truediv__=s_div; S.__mul__=s_mul; S.__rmul__=s_mul
S.__eq__=lambda s,o: SB(s.t==lift(o))
def explore(fn,maxp=200000):
    out=[]; stack=[[]]; n=0
    while stack:
        pre=stack.pop(); CTX.prefix=list(pre); CTX.pos=0; CTX.sol=z3.Solver(); CTX.sol.set('timeout',1500); CTX.todo=[]
        try: r=fn()
        except IndexError as e: r=e
        stack.extend(CTX.todo); out.append((CTX.sol.assertions(),r,CTX.sol)); n+=1
        assert n<maxp
    return out
lim,N=int(sys.argv[1]),int(sys.argv[2])
def harness():
    d=Dea(limexp=lim); d.epstab=np.zeros(len(d.epstab),dtype=object)
    res=[]
    for i in range(N):
        res.append(d(S(z3.Real('s%d'%i))))
    return res
t=time.time(); paths=explore(harness)
exc=[(a,r,s) for a,r,s in paths if isinstance(r,Exception)]
print('limexp',lim,'len',N,'paths',len(paths),'exceptions',len(exc),'queries',NQ[0],'unknown',UNK[0],'%.1fs'%(time.time()-t))
if exc:
    a,r,s=exc[0]; print(r); s.check(); m=s.model(); print([m.eval(z3.Real('s%d'%i),model_completion=True) for i in range(N)])
