# probe: z3 FP one-sidedness and make_exact lemmas at float64
import z3,time
F=z3.Float64(); RM=z3.RNE()
x,h=z3.FPs('x h',F)
fin=lambda v: z3.And(z3.Not(z3.fpIsNaN(v)),z3.Not(z3.fpIsInf(v)))
s=z3.Solver(); s.add(fin(x),fin(h),z3.fpGT(h,z3.FPVal(0.0,F)))
s.add(z3.Or(z3.fpLT(z3.fpAdd(RM,x,h),x), z3.fpGT(z3.fpSub(RM,x,h),x), z3.fpLT(z3.fpAdd(RM,x,z3.fpMul(RM,z3.FPVal(2.0,F),h)),x)))
t=time.time(); print('one-sided',s.check(),'%.1fs'%(time.time()-t))
# complex step: real part of x + 1j*h  == x : (x + (0*h - 1*0)) 
s=z3.Solver(); s.add(fin(x),fin(h))
re=z3.fpAdd(RM,x,z3.fpSub(RM,z3.fpMul(RM,z3.FPVal(0.0,F),h),z3.fpMul(RM,z3.FPVal(1.0,F),z3.FPVal(0.0,F))))
s.add(z3.Not(z3.fpEQ(re,x)))
t=time.time(); print('real part',s.check(),'%.1fs'%(time.time()-t))
# make_exact: r=(h+1)-1 ; claim (r+1) == (h+1) exactly and |r-h|<=2^-53 for |h|<=1
one=z3.FPVal(1.0,F)
r=z3.fpSub(RM,z3.fpAdd(RM,h,one),one)
s=z3.Solver(); s.add(fin(h),z3.fpLEQ(z3.fpAbs(h),one))
s.add(z3.Not(z3.fpEQ(z3.fpAdd(RM,r,one),z3.fpAdd(RM,h,one))))
t=time.time(); print('make_exact',s.check(),'%.1fs'%(time.time()-t))
