import sys
sys.path.insert(0, '/repo/src')
from numdifftools.finite_difference import LogRule
from numdifftools.step_generators import MinStepGenerator, _STATE

METHODS = ['central', 'forward', 'backward', 'complex', 'multicomplex']

def steps_enough(n: int, order: int, mi: int) -> bool:
    """
    pre: 1 <= n <= 1000
    pre: 1 <= order <= 1000
    pre: 0 <= mi < 4
    post: _
    """
    method = METHODS[mi]
    rule = LogRule(n=n, method=method, order=order)
    mo = rule.method_order
    step = rule.richardson_step
    num_terms = (n - 1 + mo) // step
    gen = MinStepGenerator()
    gen._state = _STATE(None, method, n, mo)
    return gen.min_num_steps >= num_terms and mo % step == 0 and mo >= step

def index_ok(n: int, order: int) -> bool:
    """
    pre: 1 <= n <= 1000
    pre: 1 <= order <= 1000
    post: _
    """
    rule = LogRule(n=n, method='complex', order=order)
    mo = rule.method_order
    step = rule.richardson_step
    parity = rule._parity('complex', n - 1, mo)
    stp = [1, 2, 2, 4, 4, 4, 4][parity]
    off = [1, 1, 2, 2, 4, 1, 3][parity]
    return stp == step and stp * ((n - 1) // step) + off == n
