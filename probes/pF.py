import sys,warnings; sys.path.insert(0,'/repo/src')
import numpy as np, numdifftools as nd
from numdifftools.multicomplex import Bicomplex
from numdifftools.extrapolation import Dea, EpsAlg
def T(name,fn):
    try: print(name,'->',fn())
    except Exception as e: print(name,'RAISES',type(e).__name__,str(e)[:100])
T('mc n=2 expm1^2 at 1', lambda:(nd.Derivative(lambda x:np.expm1(x)**2,n=2,method='multicomplex')(1.0), 2*np.exp(2.0)+2*np.exp(1.0)*(np.exp(1.0)-1)))
z=Bicomplex(0.3+0.01j,0.02)
u,v=z.z1-1j*z.z2, z.z1+1j*z.z2
for nm in ('expm1','log1p','exp','log','sin','arctan','sqrt','tanh','arcsin'):
    F=getattr(z,nm)(); f=getattr(np,nm)
    o1=(f(u)+f(v))/2; o2=1j*(f(u)-f(v))/2
    print(nm, abs(F.z1-o1), abs(F.z2-o2))
A=np.array([[1.,2.,3.]])
T('Jac 1xn', lambda: nd.Jacobian(lambda x:A@x)(np.array([1.,2,3])))
T('Jac complex x', lambda: nd.Jacobian(lambda x:x**2,method='complex')(np.array([1+1j,2.])))
T('Grad complex x', lambda: nd.Gradient(lambda x:np.sum(x**2),method='complex')(np.array([1+1j,2.])))
T('Deriv complex x', lambda: nd.Derivative(lambda x:x**2,method='complex')(1+1j))
T('Hessdiag complex x', lambda: nd.Hessdiag(lambda x:np.sum(x**2),method='complex')(np.array([1+1j,2.])))
T('Hessian complex x', lambda: nd.Hessian(lambda x:np.sum(x**2),method='complex')(np.array([1+1j,2.])))
T('Hessian scalar x', lambda: nd.Hessian(lambda x:np.sum(x**2))(1.0))
T('Hessian len1 f', lambda: nd.Hessian(lambda x:np.array([np.sum(x**2)]))(np.array([1.,2.])))
T('Hessian complex f central', lambda: nd.Hessian(lambda x:np.sum((1j+x)**3))(np.array([1.,2.])))
def dea_const():
    d=Dea(limexp=3)
    for i in range(30): r=d(1.0)
    return r
T('Dea const', dea_const)
def dea_geo():
    d=Dea(limexp=5)
    for i in range(60): r=d(1+0.5**i)
    return r
T('Dea geo', dea_geo)
from numdifftools.limits import Limit, Residue
T('Limit complex z0', lambda: Limit(lambda z:np.sin(z-1j)/(z-1j))(1j))
import numdifftools.fornberg as fb
T('taylor', lambda: fb.taylor(lambda z:1/(1-z),0,n=6)[:3])
