import sys, time; sys.path.insert(0,'/repo/src'); sys.path.insert(0,'/tmp/probe')
import numpy as np, z3, sym, math
from sym import var, S
from numdifftools.fornberg import _fd_weights_all
sym.CTX=sym.Ctx()
def run(m,n, timeout=120):
    w=np.zeros((m,n+1),dtype=object)
    xs=[z3.Real('x%d'%i) for i in range(m)]
    x=np.array([S(t) for t in xs],dtype=object)
    x0=z3.Real('c')
    _fd_weights_all(w,x,S(x0),n)
    distinct=[xs[i]!=xs[j] for i in range(m) for j in range(i)]
    tot=0
    for k in range(n+1):
        for d in range(m):
            lhs=sum((lift(w[v,k])*P(xs[v],d) for v in range(m)), z3.RealVal(0))
            rhs = z3.RealVal(math.factorial(d)//math.factorial(d-k))*P(x0,d-k) if d>=k else z3.RealVal(0)
            s=z3.Solver(); s.set('timeout',timeout*1000)
            s.add(*distinct); s.add(lhs!=rhs)
            t=time.time(); r=s.check(); dt=time.time()-t; tot+=dt
            print(m,n,'k',k,'d',d,r,'%.2fs'%dt, flush=True)
            if str(r)!='unsat': return
    print('TOTAL',m,n,'%.1fs'%tot)
def P(t,e):
    r=z3.RealVal(1)
    for _ in range(e): r=r*t
    return r
def lift(v):
    return v.t if isinstance(v,S) else z3.RealVal(v)
m=int(sys.argv[1]); n=int(sys.argv[2])
run(m,n)
