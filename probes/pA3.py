import sys, time; sys.path.insert(0,'/repo/src'); sys.path.insert(0,'/tmp/probe')
import numpy as np, z3, math
from fractions import Fraction
from numdifftools.fornberg import _fd_weights_all
ONE=z3.RealVal(1); ZERO=z3.RealVal(0)
def L(v):
    if isinstance(v,Q): return v
    if isinstance(v,(int,np.integer)): return Q(z3.RealVal(int(v)),ONE)
    if isinstance(v,(float,np.floating)): return Q(z3.RealVal(str(Fraction(float(v)))),ONE)
    raise TypeError(type(v))
class Q:
    """num/den of z3 polynomial terms; den tracked for nonzero side condition"""
    def __init__(s,n,d): s.n=n; s.d=d
    def __add__(s,o):
        if isinstance(o,np.ndarray): return NotImplemented
        o=L(o); 
        if z3.eq(s.d,o.d): return Q(s.n+o.n,s.d)
        return Q(s.n*o.d+o.n*s.d, s.d*o.d)
    __radd__=__add__
    def __neg__(s): return Q(-s.n,s.d)
    def __sub__(s,o):
        if isinstance(o,np.ndarray): return NotImplemented
        return s+(-L(o))
    def __rsub__(s,o): return L(o)-s
    def __mul__(s,o):
        if isinstance(o,np.ndarray): return NotImplemented
        o=L(o); return Q(s.n*o.n, s.d*o.d)
    __rmul__=__mul__
    def __truediv__(s,o):
        if isinstance(o,np.ndarray): return NotImplemented
        o=L(o); return Q(s.n*o.d, s.d*o.n)
    def __rtruediv__(s,o): return L(o)/s
def P(t,e):
    r=ONE
    for _ in range(e): r=r*t
    return r
def run(m,n):
    w=np.zeros((m,n+1),dtype=object)
    xs=[z3.Real('x%d'%i) for i in range(m)]
    x=np.array([Q(t,ONE) for t in xs],dtype=object)
    x0=z3.Real('c')
    t0=time.time()
    _fd_weights_all(w,x,Q(x0,ONE),n)
    tot=0
    for k in range(n+1):
        for d in range(m):
            lhs=L(0)
            for v in range(m): lhs=lhs+L(w[v,k])*Q(P(xs[v],d),ONE)
            rhs = z3.RealVal(math.factorial(d)//math.factorial(d-k))*P(x0,d-k) if d>=k else ZERO
            t=time.time()
            e=z3.simplify(lhs.n-rhs*lhs.d, som=True)
            s=z3.Solver(); s.add(e!=0); r=s.check()
            dt=time.time()-t; tot+=dt
            if str(r)!='unsat' or dt>5: print(m,n,'k',k,'d',d,r,'%.2fs'%dt, str(e)[:80], flush=True)
    print('TOTAL',m,n,'%.1fs'%(time.time()-t0))
run(int(sys.argv[1]),int(sys.argv[2]))
