#!/bin/bash
# Build the overlay venv used by every check (offline, from /venv + the wheelhouse).
set -e
cd "$(dirname "$0")"
exec ./bootstrap.sh
