#!/usr/bin/env python3
"""Regenerates MANIFEST.json from the table below (run after adding a check)."""
import json
import os

HERE = os.path.dirname(os.path.abspath(__file__))

TECH = 'symbolic execution of the real numdifftools functions on z3 terms (own tracing executor over numpy object arrays); negated property decided by z3'

CHECKS = {
    'C01': dict(
        text='RESTRICTED sub-claim, bounded solver verdict: through the real Derivative pipeline (difference function dispatch, '
             'pinv rule, Richardson) every derivative-estimate row equals the independently computed n-th derivative for ALL '
             'polynomials of degree n+method_order-1 with coefficients in [-1,1] (real, and complex for the real-step methods), '
             'within the backward-error bound of the float rule; n=0 returns the term f(x). Transcendental f, truncation '
             'behaviour and rounding of the accuracy envelope are outside the claim and are not reported as verified.',
        note='Trusted: z3 (QF_LRA); symbolic numpy layer and the convolve1d reference (both validated against the untouched '
             'library on every run); tolerance tau_i = 2000*eps*|w|_1*sum_k F_k h^(k-n) + point-rounding term; rows with '
             'tau >= 1e-3*scale are excluded and counted. Counterexamples are replayed on the final value of the real Derivative.',
        technique=TECH + ' (QF_LRA)',
        design='3/C01'),
    'C02': dict(
        text='RESTRICTED sub-claim, bounded solver verdict. Unit harness on the real _Limit._extrapolate (Richardson -> dea3 -> '
             'outlier penalty with a symbolic percentile -> per-column argmin with tie rule -> gather/reshape) over fresh symbolic '
             'k x c tables: on every feasible selection path (value, error, final_step)[c] come from one common row, error is the '
             'column minimum of the penalised errors and >= 0, and inputs within t of X give |value-X| <= error + W*t (the Wynn step '
             'is covered because abserr >= |result - v2|). Record of all five classes on symbolic-coefficient functions: f_value is '
             'f(x), shapes broadcast-compatible, final_step among the generated steps. With C01 this gives |result-exact| <= '
             'error_estimate + W*tau on the polynomial family; calibration of the estimate is NOT claimed.',
        note='Trusted: z3 (QF_UFLRA); quotients and symbolic products inside dea3 uninterpreted (claims hold for any value); '
             'convolve1d reference; bounds k<=8 rows, c<=4 columns (9 thorough). A change that only rescales the estimate '
             '(e.g. 12.7 -> 1.27) is not detected and not claimed.',
        technique=TECH + ' (QF_UFLRA), all selection paths explored with solver-decided feasibility',
        design='3/C02'),
    'C03': dict(
        text='Bounded solver verdict on the real Jacobian / Gradient / directionaldiff executed on affine maps with symbolic '
             'coefficient tensors: for ALL coefficients the result has shape (m,n) / (m,n,k) with entry [i,j] / [i,j,l] equal to the '
             'coefficient at the same index (a swapped axis is a counterexample because A is not symmetric); Gradient has shape (n,) '
             '(0-d for n=1; (x.size,) for x with several axes) and equals the single Jacobian row; directionaldiff equals c.v/|v| with |v| '
             'the Euclidean length of the elements, for x and v of any shape with equal size (matrix-shaped v of rank 2 included); size '
             'mismatch raises ValueError. '
             'Driven end to end (short step sequence) and at row level with the default generators. n<=3, m<=3, k<=2 (4,4,3 thorough).',
        note='Trusted: z3 (QF_LRA); exact arithmetic; affine maps only (accuracy on nonlinear maps is outside the claim).',
        technique=TECH + ' (QF_LRA)',
        design='3/C03'),
    'C04': dict(
        text='Bounded solver verdict on the real Hessian / Hessdiag code: all twelve stencil functions executed on a quadratic '
             'with symbolic symmetric Q, symbolic x and symbolic steps h>0 are exactly Q[i,j] (resp. alpha*g*h + k*Q[i,i]*h^2 for '
             'the Hessdiag quotients) and symmetric entry by entry; end to end Hessian(f)(x) has shape (n,n), equals Q within 1e-9 '
             'for all coefficients, H[i,j]==H[j,i] exactly; Hessdiag orders 2,4,6 equals diag(Q) and diag(Hessian); complex-valued '
             'quadratics with the real-step methods; n<=3 (4 thorough), six methods. Length-1-array f: concrete run of all 12 '
             'class/method pairs (not solver evidence).',
        note='Trusted: z3 (polynomial identities / QF_LRA); exact arithmetic; quadratics only.',
        technique=TECH + ' (QF_NRA identities, QF_LRA)',
        design='3/C04'),
    'C05': dict(
        text='Bounded solver verdict over all x, all positive base steps and every value of the nominal-step log(): every '
             'argument the five derivative classes pass to the user function is admissible (one-sided / mirrored / exact real '
             'part / within W steps / 1-2 coordinates), plus float64 lemmas for the primitive shapes x+h, x-h, x+-2h, x+h+g, '
             'Re(x+1j*h). Bounds: dimension <=3, n<=4 (6 thorough), order<=4 (8 thorough).',
        note='Trusted: z3; the symbolic numpy layer (validated on every run by evaluating each recorded argument term at a random '
             'rational point against a float run of the untouched library); the constant-returning _extrapolate stub. Real '
             'arithmetic for the argument terms; float64 rounding only for the listed primitive shapes.',
        technique=TECH + ' (QF_UFLRA) and z3 floating-point theory (QF_FP) for the float64 lemmas',
        design='3/C05'),
    'C06': dict(
        text='Solver verdicts in three layers: (a) every difference function reachable via LogRule.diff, run on symbolic Taylor '
             'coefficients / x / h / step ratio and an exact symbolic sqrt(1/2), contains exactly the powers k_0+step*j that the '
             'real _fd_matrix (run symbolically) models, with matching coefficients and the documented sign flip (n, order<=10); '
             '(b) CrossHair confirms over all paths for UNBOUNDED n, order the integer identities (parity tables, row index, '
             'method_order rounding, Richardson spacing, periodicity in n, eval_first, default step count >= rule length); '
             '(c) the real diff/apply with the pinv weights is exact on polynomials with symbolic coefficients of degree '
             'n+method_order-1 over a grid of step ratios (z3 LRA, backward-error tolerance); degree+1 twin.',
        note='Trusted: z3, CrossHair 0.0.110; convolve1d reference (validated per run); moment systems with condition number '
             '> 1e12 (computed from the documented matrix, not from the library) are excluded and counted. Exactness is stated '
             'against method_order (the documented rounding of `order`), not the raw order.',
        technique=TECH + '; CrossHair symbolic execution for the unbounded integer identities',
        design='3/C06'),
    'C07': dict(
        text='Bounded solver verdict on the real Richardson class: _r_matrix run with a symbolic ratio has the documented '
             'power in every entry; __call__ (pinv rule, convolution orientation/origin/trimming) maps L+sum_j a_j h^k_j to L in '
             'every output slot for ALL L, a_j in [-1,1] (real ratios and complex spiral ratios) within the backward-error bound of '
             'the float weights; output counts, short sequences, non-negative error estimates on all _estimate_error branches, '
             'column independence; one Richardson object reused with other sequences / changed attributes gives the same terms as a '
             'fresh object. Bounds: length<=8, num_terms<=5, step<=4, order<=8, stated ratio grid.',
        note='Trusted: z3 (QF_LRA / QF_UFLRA); the convolve1d reference (differentially validated, including reflected boundary '
             'rows, on every run); float weights and double-rounded sequence coefficients as exact rationals. Known finding '
             'listed in known_findings.json (num_terms=0 error-array length).',
        technique=TECH + ' (QF_LRA)',
        design='3/C07'),
    'C08': dict(
        text='Bounded non-interference (2-safety) verdict: on the real selection pipeline over symbolic k x c tables no branch '
             'decision mixes columns, the outputs of a column are terms over that column only, paths agreeing on a column\'s '
             'decisions return identical terms (also against the single-column run), gather/reshape is C-order; _vstack puts '
             'evaluation i in row i and element j in column j; end-to-end Derivative on x with 0..3 axes and per-element symbolic '
             'coefficients (C and Fortran memory order): shape preserved, entry idx depends only on element idx and equals the '
             'scalar run; tables with all-NaN columns: the other columns are unaffected and the NaN column returns NaN; '
             '*args/**kwds forwarded on every call; concrete witness: scalar call == array element bit for bit on a grid (nominal step, '
             'derivatives); one object called twice at the same point with other positional / keyword '
             'arguments: the second result is a term over the second arguments only and equals a fresh object\'s.',
        note='Trusted: z3 for path feasibility; exact arithmetic. Bit-identity in float64 follows only under the stated '
             'assumption that numpy elementwise kernels are position-independent. Bounds: <= 7 rows, <= 4 columns in the forking unit.',
        technique=TECH + '; non-interference by self-composition over solver-validated paths',
        design='3/C08'),
    'C09': dict(
        text='RESTRICTED sub-claim (threads not covered), solver verdict by inductive / two-step harnesses on the real code (plus one concrete '
             'fresh-interpreter witness: seven results are bit-identical before and after a zoo of other objects was used): rule '
             'cache with a solver-decided symbolic dictionary and symbolic UNBOUNDED n, order, step ratios for all 16 method pairs '
             '- warm rule == cold rule on every feasible path; step generator run from an arbitrary symbolic remembered state - '
             'output and branch decisions contain no pre-state symbol; Derivative setter round trips with symbolic intermediate '
             'values - configuration digest equals a fresh object; reuse sequences (other point, shared generator, n changed and '
             'restored, n=0 / n=3 / another order called in between, method switched) for Derivative and for Jacobian / Gradient / Hessian / Hessdiag / Limit - value, error '
             'estimate and final step are the same terms as a fresh object\'s; a generator run after a REAL earlier call with '
             'another (n, order) equals a fresh generator\'s run; CStepGenerator likewise.',
        note='Trusted: z3; cache entries are modelled as functions of the arguments passed to _fd_matrix (token stub); '
             'get_base_step uninterpreted in the generator obligation. Concurrent threads and long numeric histories are outside '
             'the claim.',
        technique=TECH + ' (QF_UFLIA/LRA), inductive state-carrier harnesses',
        design='3/C09'),
    'C10': dict(
        text='Solver verdicts on the real step generators: Basic{Max,Min}StepGenerator with symbolic base step and ratio '
             '(closed form, order, strict geometric decrease, nothing for a zero base); Min/MaxStepGenerator with symbolic x and '
             'base (nominal step max(log(1.718+|x|),1) with log uninterpreted, user nominal step, documented defaults); counting '
             'logic and the coupling default-count >= rule length for UNBOUNDED n, order (CrossHair, confirmed over all paths); '
             'make_exact in float64 (z3 FP); CStepGenerator radial/spiral closed form for positive and negative dtheta, default count, '
             'path guard; a default base step is recomputed per call; default_scale '
             'against a closed-form table (n, order <= 10).',
        note='Trusted: z3, CrossHair; exact arithmetic except the make_exact lemma; non-binary ratios compared up to 8 eps (float '
             'power rounding). The default_scale table is a configuration table (enumerated, not symbolic).',
        technique=TECH + ' (QF_UFNRA), CrossHair for the integer counting logic, z3 FP for make_exact',
        design='3/C10'),
    'C11': dict(
        text='Bounded solver verdict: the real __call__ of all five derivative classes with method complex / multicomplex is '
             'executed on a symbolic complex point (some imaginary part non-zero) and/or a function with a symbolic non-zero '
             'imaginary value, for n = 1..4 (as far as the method admits) and with full_output on and off; all paths explored (z3 '
             'feasibility); every feasible path raises ValueError, a returning path is the counterexample. Integer / string guards (multicomplex n>2, Residue order<=pole_order, unknown Limit path) confirmed by '
             'CrossHair for unbounded values; length guards (fd_weights_all, fd_derivative, directionaldiff, too few steps, '
             'wrong-size function output) by running the real guards for every length within the bound, with 1-3 columns and for '
             'Derivative / Gradient / Jacobian / Hessdiag (concrete enumeration of sizes, not a solver verdict).',
        note='Trusted: z3, CrossHair; numpy.iscomplex semantics (imaginary part non-zero); dimension <= 3, lengths <= 8.',
        technique=TECH + '; CrossHair for integer/string guards',
        design='3/C11'),
    'C12': dict(
        text='RESTRICTED sub-claim, solver verdict on the real Bicomplex class with four symbolic real components per operand: '
             '+ - * neg conjugate dot and integer powers (-3..5, _pow_singular) equal the idempotent decomposition e1 f(z1-iz2) + '
             'e2 f(z1+iz2) for all component values (polynomial / rational identities); exp sin cos sinh cosh expm1 equal the '
             'decomposition oracle as consequences of the addition theorems (complex functions uninterpreted, axioms applied as '
             'oriented rewrites, identities decided by z3); log1p is consistent with the library log of 1+zeta; reduction on z2=0; '
             'exp(log(zeta)) == zeta on the slice z2=0 (branch logic of _arg_c); in the principal region (Re z1 > 0, other components '
             '<= Re z1/4; mirrored for divisors) log log2 log10 exp2 sqrt, real powers, reciprocal and division equal the oracle on '
             'every path of the real code from the principal-branch identities, and tan cot sec csc tanh coth sech csch are term for '
             'term the library quotient of proven functions. Inverse functions, bicomplex exponents, logaddexp and everything '
             'outside the principal region are NOT covered.',
        note='Trusted: z3 arithmetic normaliser and nlsat; the listed addition-theorem and principal-branch identities (axioms, valid in '
             'the stated region) and definitions (w^p := exp(p log w), 1/w := exp(-log w)); counterexamples are confirmed numerically '
             'against numpy complex functions at random points of the region.',
        technique=TECH + ' (QF_UFNRA with instantiated addition-theorem axioms)',
        design='3/C12'),
    'C13': dict(
        text='Bounded solver verdict on the real dea3 executed on symbolic arrays: for ALL real inputs abserr>=0 and '
             'abserr>=|result-v2| (hence honest against any X the inputs are within t of), element independence, inputs '
             'unmodified, symmetric=True only trims along axis 0 (1-d and 2-d inputs); the documented guards, restated from the inputs, decide between Shanks value '
             'and fallback v2 exactly as documented; for all L,a,q in a 30-decade box (q up to 5e-5 from 1) on the Shanks branch |result-L|<=1e-250; '
             'abserr >= |v2-v1|+|v1-v0| for all inputs; broadcast shapes are elementwise; '
             '(QF_NRA); IEEE totality (finite, non-negative abserr) bit-blasted in z3 FP: float32 with rescaled constants in the '
             'quick tier, float64 with the real constants and |e|<=1e100 in the thorough tier.',
        note='Trusted: z3 (NRA, FP); symbolic numpy layer (validated against the float library on random and tie inputs every '
             'run). The floating-point rounding amplification of the geometric case is outside the claim.',
        technique=TECH + ' (QF_UFLRA/QF_NRA) and z3 floating-point theory (QF_FP) on the same trace',
        design='3/C13'),
    'C14': dict(
        text='Bounded solver verdict. EpsAlg (real class on symbolic terms): value after term m equals the independently built '
             'Hankel-determinant Shanks entry, and a limit plus k geometric transients is recovered from 2k+1 terms for all '
             'parameters (k<=2). Dea (real class): one __call__ from an arbitrary symbolic table for every control '
             'state (n, nres class), all comparison outcomes explored with z3 deciding feasibility; per path index safety, no '
             'exception, every divisor non-zero, abserr>=5*eps*|result|; EpsAlg guard threshold <= 1e-30; exhaustive search of the finite control graph gives "any length" for limexp in '
             '{3,4,5,7} (plus 6, 9 thorough; even sizes are rounded up); outside the guards the value after term m is the Shanks entry e_k(S_(m-2k)) of the last 2k+1 terms for ALL terms (real Dea on symbolic terms, control path of a rational shadow run; limexp 3, 5, also after the table is full); first terms agree with dea3.',
        note='Trusted: z3; table contents arbitrary at every call (over-approximation of histories, sound for absence of '
             'violations); reciprocal of symbolic differences uninterpreted; abstract counterexamples are reported only when a '
             'sequence family realises them on the real class. Known finding (table overrun after convergence) listed.',
        technique=TECH + ' (polynomial identities; QF_UFLRA path feasibility) + explicit search of the resulting finite control graph',
        design='3/C14'),
    'C15': dict(
        text='Bounded solver verdict on the real Fornberg recursion: fd_weights_all executed on fully symbolic nodes and x0 '
             '(m<=4) and on concrete rational node sets with symbolic x0 and a symbolic polynomial (m<=14, six node families): '
             'every row k satisfies the Lagrange-derivative moment identities for all nodes / x0 / coefficients; fd_weights is '
             'row n; an earlier result is unchanged by a later call (no shared buffer); n>=len(x) raises ValueError.',
        note='Trusted: z3 polynomial arithmetic (simplify + nlsat); exact arithmetic (rounding scaled by node conditioning is '
             'outside the claim); nodes pairwise distinct. Trace validated against the float library per node set.',
        technique=TECH + ' (polynomial identities, QF_NRA)',
        design='3/C15'),
    'C16': dict(
        text='Bounded solver verdict on the real fd_derivative: samples of a symbolic polynomial of degree 2*(n//2+m) on exact '
             'rational grids (uniform / non-uniform / nearly uniform / width 1e-7, increasing / decreasing, N up to 2mm+6, 24 '
             'thorough) and on fully symbolic '
             'grids for (n,m)=(1,1): every output index (both boundary blocks and the interior window) equals the exact n-th '
             'derivative for all coefficients; output length; degree 2mm+2 twin; misuse guards.',
        note='Trusted: z3 (linear / polynomial identities); exact arithmetic on exact rational grid constants; trace validated '
             'against the float library for every grid.',
        technique=TECH + ' (QF_LRA / QF_NRA identities)',
        design='3/C16'),
    'C18': dict(
        text='RESTRICTED sub-claim, bounded solver verdict on the real Limit / Residue: with a symbolic real z0 every evaluation '
             'point after the probe lies above (below) z0 for method above (below) and equals z0 + sign*step; finite entries of '
             'f(z0) are returned as the same term with zero error estimate for every NaN pattern (length <= 3, singular points '
             'not sorted, limit value tied to the identity of the point) and the limit is taken at the NaN positions only; on the polynomial limit model with symbolic coefficients every Richardson row inside '
             '_lim and the end-to-end value equal the limit within the backward-error bound (orders 1..6, above/below, radial/spiral, '
             'real/complex z0); Residue with poles of order 1..3 returns g(z0). Transcendental kernels and error-estimate '
             'calibration are not claimed.',
        note='Trusted: z3 (QF_LRA / QF_UFLRA); convolve1d reference; exact arithmetic on the floats the library passes to f.',
        technique=TECH + ' (QF_LRA)',
        design='3/C18'),
}

NOT_APPLICABLE = {
    'C17': 'FFT (C code) inside a data-dependent radius search on transcendental samples; floating-point accuracy claim with no algebraic sub-family; cannot be encoded (DESIGN.md C17)',
    'C19': 'deciding computation is inside scipy.optimize._numdiff.approx_derivative, which coerces to float64 on entry; the wrapper has no symbolic input space (DESIGN.md C19)',
}

ALL = ['C%02d' % i for i in range(1, 20)]


def main():
    checks = []
    for pid in ALL:
        if pid not in CHECKS:
            continue
        c = CHECKS[pid]
        checks.append({
            'property_id': pid,
            'quick_cmd': './check %s --tier quick' % pid,
            'thorough_cmd': './check %s --tier thorough' % pid,
            'evidence_file': 'evidence/%s.json' % pid,
            'replay_cmd_template': './check %s --replay {path}' % pid,
            'engine': 'symnum+z3',
            'level_claimed': {'category': 'other', 'text': c['text'], 'design_ref': c['design']},
            'level_note': c['note'],
            'technique': c['technique'],
        })
    na = [{'property_id': k, 'reason': v} for k, v in NOT_APPLICABLE.items()]
    for pid in ALL:
        if pid not in CHECKS and pid not in NOT_APPLICABLE:
            na.append({'property_id': pid, 'reason': 'check under construction in this session (not yet claimed)'})
    man = {
        'version': 1,
        'setup_cmd': './setup.sh',
        'hooks': {
            'guard': 'NUMDIFFTOOLS_VERIF',
            'enable': 'no source hooks: every stub is rebound from the harness side inside vf.tracing.traced() (see DESIGN.md 2.1)',
            'baseline_off_cmd': 'cd /repo && /venv/bin/python -m pytest -ra -q -p no:cacheprovider --timeout=900 --continue-on-collection-errors',
            'source_commits': [],
            'add_only': True,
        },
        'engines': [
            {'name': 'symnum+z3', 'path': 'vf/symnum.py', 'serves_properties': sorted(CHECKS),
             'kind_free_text': 'tracing symbolic executor for numpy code (Sym/SymArr proxies, fork by re-execution) with z3 5.1 as the decision procedure; CrossHair for numpy-free integer logic'},
        ],
        'checks': checks,
        'not_applicable': sorted(na, key=lambda e: e['property_id']),
        'notes': 'exit 2 of a check = harness error / inconclusive obligation (never a pass, never a violation). Known findings: known_findings.json.',
    }
    with open(os.path.join(HERE, 'MANIFEST.json'), 'w') as f:
        json.dump(man, f, indent=1)
    print('MANIFEST.json: %d checks, %d not applicable' % (len(checks), len(na)))


if __name__ == '__main__':
    main()
