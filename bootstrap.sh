#!/bin/bash
# Idempotent, lock-protected creation of /verif/.venv (overlay on /venv with z3, crosshair, cvc5, jsonschema).
set -e
VERIF="$(cd "$(dirname "$0")" && pwd)"
VENV="$VERIF/.venv"
STAMP="$VENV/.ok"
[ -f "$STAMP" ] && exit 0
exec 9>"$VERIF/.venv.lock"
flock 9
[ -f "$STAMP" ] && exit 0
rm -rf "$VENV"
/venv/bin/python -m venv "$VENV"
SP=$("$VENV/bin/python" -c 'import sysconfig; print(sysconfig.get_paths()["purelib"])')
printf '/venv/lib/python3.12/site-packages\n' > "$SP/_base.pth"
PIP_NO_INDEX=1 "$VENV/bin/python" -m pip install -q --no-index --find-links /opt/veriftools/wheels z3-solver crosshair-tool cvc5 jsonschema >/dev/null
"$VENV/bin/python" -c 'import z3, numpy, scipy, crosshair, jsonschema'
touch "$STAMP"
